"""
C10 -- pool concurrency is bounded by max_threads yet grows to it when work waits.
CrossHair decides constructor validation/clamping; z3 on the transition system
decides the schedule clauses.
"""
from engine.ch import Ob, Runner
from engine.ts import driver
from props import poolscn

LEVEL = "model_checking"


def ts_jobs(tier):
    thorough = tier == "thorough"
    full = {"name": "all-interleavings", "depth": 16 if not thorough else 18, "preempt": None, "timeout": 200 if not thorough else 900}
    ctx = {"name": "context-bounded", "depth": 30, "preempt": 2, "timeout": 1500}
    out = []
    # mutually dependent tasks: task0 waits for a gate that task1 opens => both must run concurrently
    for mx, mn in [(2, 0), (2, 1), (2, 2)] + ([(3, 0), (3, 1), (3, 3)] if thorough else []):
        ops = ["start", "enq0", "enq1", "await0", "await1"]
        for k in (0, 1, 2, 3):
            base = {"max": mx, "min": mn, "tasks": ["gate0", "open0"], "clients": [ops],
                    "props": ["exactly_once", "bounded", "min_workers", "nodeadlock", "results"], "window_at": k, "twin_prog": "progress"}
            out.append((dict(base, name="c10-dependent-max{0}min{1}-op{2}".format(mx, mn, k)), full if mx <= 2 else dict(full, depth=14)))
            if False and thorough and k in (1, 3):
                out.append((dict(base, name="c10-dependent-max{0}min{1}-op{2}".format(mx, mn, k)), ctx))
        # queued before start: start() must spawn enough workers
        ops = ["enq0", "enq1", "start", "await0", "await1"]
        for k in (2, 3):
            base = {"max": mx, "min": mn, "tasks": ["gate0", "open0"], "clients": [ops],
                    "props": ["exactly_once", "bounded", "nodeadlock", "min_workers"], "window_at": k, "twin_prog": "progress"}
            out.append((dict(base, name="c10-prequeued-max{0}min{1}-op{2}".format(mx, mn, k)), full if mx <= 2 else dict(full, depth=14)))
    # one task queued before start() on a pool with min_threads > 1: start() must still bring up min_threads workers
    for mx, mn in [(2, 2), (3, 2)] + ([(3, 3)] if thorough else []):
        ops = ["enq0", "start", "open0", "await0", "stop"]
        for k in (1, 2):
            base = {"max": mx, "min": mn, "tasks": ["gate0"], "clients": [ops], "W": mx + 1,
                    "props": ["exactly_once", "bounded", "min_workers", "nodeadlock"], "window_at": k, "twin_prog": "progress"}
            out.append((dict(base, name="c10-prestart-min-max{0}min{1}-op{2}".format(mx, mn, k)), full if mx <= 2 else dict(full, depth=14)))
    # three mutually dependent tasks need three workers
    if thorough:
        ops = ["start", "enq0", "enq1", "enq2", "await0", "await1", "await2"]
        for k in (1, 2, 3, 4):
            base = {"max": 3, "min": 0, "tasks": ["gate0", "gate0", "open0"], "clients": [ops], "W": 4,
                    "props": ["exactly_once", "bounded", "nodeadlock"], "window_at": k, "twin_prog": "progress"}
            out.append((dict(base, name="c10-dependent3-op{0}".format(k)), dict(full, depth=16)))
    # more work than workers: never more than max_threads at once, counters in range,
    # including when Thread.start() fails (RuntimeError) at any attempt
    for mx, mn in [(1, 0), (2, 0), (2, 1)]:
        for failure in (False, True):
            ops = ["start", "enq0", "enq1", "enq2", "open0", "await0", "await1", "await2"]
            for k in (0, 1, 2, 3, 4, 5):
                base = {"max": mx, "min": mn, "tasks": ["gate0", "gate0", "ret"], "clients": [ops], "W": mx + 2,
                        "props": ["exactly_once", "bounded"] + ([] if failure else ["nodeadlock", "min_workers"]),
                        "window_at": k, "twin_prog": "progress", "start_failure": failure}
                out.append((dict(base, name="c10-saturated-max{0}min{1}-{2}-op{3}".format(mx, mn, "startfail" if failure else "ok", k)),
                            dict(full, depth=14 if not thorough else 18)))
    # a waiting task is started although a worker is just retiring / idling out
    for mx, mn in [(1, 0), (2, 0), (2, 1)]:
        ops = ["start", "enq0", "await0", "enq1", "await1"]
        base = {"max": mx, "min": mn, "tasks": ["ret", "ret"], "clients": [ops], "props": ["exactly_once", "bounded", "nodeadlock"],
                "window_at": 3, "twin_prog": "progress"}
        out.append((dict(base, name="c10-retire-max{0}min{1}-aftertask".format(mx, mn)), dict(full, depth=full["depth"] + 2)))
        for w in range(mx):
            out.append((dict(base, name="c10-retire-max{0}min{1}-idle{2}".format(mx, mn, w), prefix=[("until", 1 + w, {"label": "Queue.get"})]),
                        dict(full, depth=full["depth"] + 2)))
    # start() racing with an enqueue from another thread: never a worker too many, and the task is served
    for mx, mn in [(1, 0), (1, 1), (2, 0), (2, 1), (2, 2)]:
        base = {"max": mx, "min": mn, "tasks": ["ret"], "clients": [["start"], ["enq0", "await0"]], "W": mx + 2,
                "props": ["exactly_once", "bounded", "nodeadlock"], "window_at": 0, "hold": [1], "twin_prog": "progress"}
        out.append((dict(base, name="c10-start-race-max{0}min{1}".format(mx, mn)), dict(full, depth=full["depth"] + 2)))
    # at least min_threads workers from start() to stop()
    for mx, mn in [(1, 1), (2, 1), (2, 2)]:
        ops = ["start", "enq0", "await0", "stop"]
        for k in (0, 1, 2, 3):
            base = {"max": mx, "min": mn, "tasks": ["ret"], "clients": [ops], "props": ["min_workers", "bounded"],
                    "window_at": k, "twin_prog": "progress"}
            out.append((dict(base, name="c10-minworkers-max{0}min{1}-op{2}".format(mx, mn, k)), full))
    if thorough:
        extra = []
        for spec, regime in out:
            if regime["name"] == "all-interleavings" and spec.get("window_at", 0) >= 1 and not spec.get("hold"):
                extra.append((dict(spec, name=spec["name"] + "-wf", prefix_order="workers_first"), regime))
        out += extra
    return out


def ch_obligations(tier, H):
    obs = [
        Ob("c10_init_valid", "mx: int, mn: int, qs: int", "H.h_init({}, mx, mn, qs)", pre=["mx >= 1", "qs >= 0"],
           shape="ThreadPool(max>=1, any min, queue_size>=0)", twin_codes=(100,), timeout=60),
        Ob("c10_init_invalid", "mx: int, mn: int, qs: int", "H.h_init({}, mx, mn, qs)", pre=["mx < 1", "qs >= 0"],
           shape="ThreadPool(max<1, ...)", twin_codes=(101,), timeout=60),
    ]
    for table, values in (("non", H.NON_NUMERIC), ("num", H.NUMERIC_LIKE)):
        for which in ("max", "min"):
            for idx in range(len(values)):
                shape = {"table": table, "which": which, "index": idx}
                sample = H.h_init_table(shape, 1)
                obs.append(Ob("c10_init_{0}_{1}_{2}".format(table, which, idx), "mn: int", "H.h_init_table({0!r}, mn)".format(shape),
                              shape=shape, twin_codes=(sample,) if sample >= 100 else (100,), timeout=60))
    return obs


def run(report, tier):
    import harness.c10 as H

    report.explanation = (
        "Two engines. (1) CrossHair executes the real ThreadPool.__init__ with symbolic max_threads, "
        "min_threads, queue_size (unbounded ints) and with non-numeric / numeric-like values from tables: "
        "ValueError iff max_threads < 1 or not numeric, min_threads clamped into [0, max_threads]. (2) z3 "
        "on the transition system compiled from the current source: windows at every operation of client "
        "programs with mutually dependent tasks (task 0 waits for a gate only task 1 opens, so both must "
        "run at once: no state may exist in which the client waits and nothing can move), more work than "
        "workers with gate-blocked tasks (never more than max_threads tasks inside their body, the pool's "
        "worker counter within [0, max_threads]) -- also when Thread.start() raises at any attempt --, "
        "tasks queued before start(), and min_threads workers alive between start() and stop()."
    )
    js = ts_jobs(tier)
    report.bounds = {"pool sizes": sorted({(s["max"], s["min"]) for s, _ in js}), "tasks": "2-3", "worker slots": "max_threads + 1..2",
                     "regimes": sorted({(r["name"], r["depth"], r.get("preempt")) for _, r in js}),
                     "constructor arguments": "all ints (symbolic), 8 non-numeric and 7 numeric-like values"}
    report.outside = ["queue_size > 0 in the schedule part", "more than 3 workers", "real OS scheduling"]
    report.assumptions = ["primitive models of Event/RLock/Thread/Queue; Thread.start() may raise RuntimeError where enabled",
                          "'serving workers' is measured by the pool's own counter and by the number of live worker threads"]
    report.trusted_base = ["z3 5.1.0", "crosshair-tool 0.0.110", "engine/ts translator + primitive models"]
    Runner(report, "harness.c10", tier).run(ch_obligations(tier, H))
    report.functions.add("jsonrpclib/threadpool.py:ThreadPool.__init__")
    driver.run_all("props.poolscn", js, report)
    report.extra["windows"] = len(js)
