"""
C18 -- custom headers compose by recency and are restored after a block.
"""
import itertools

from engine.ch import Runner, traced_functions
from props import dispshapes as D

# programs: list of ops; dict indices refer to shape["dicts"]; index 0 = constructor headers
PROGRAMS = {
    "ctor": [("call", "call")],
    "one": [("enter", 1), ("call", "call"), ("leave",), ("call", "notify")],
    "one_raise": [("enter", 1), ("call", "notify"), ("raise_leave",), ("call", "call")],
    "two": [("enter", 1), ("enter", 2), ("call", "batch"), ("leave",), ("call", "call"), ("leave",), ("call", "call")],
    "two_raise_inner": [("enter", 1), ("enter", 2), ("raise_leave",), ("call", "call"), ("leave",), ("call", "batch")],
    "two_raise_outer": [("enter", 1), ("enter", 2), ("call", "call"), ("leave",), ("raise_leave",), ("call", "notify")],
    "three": [("enter", 1), ("enter", 2), ("enter", 3), ("call", "call"), ("leave",), ("leave",), ("call", "notify"), ("leave",), ("call", "batch")],
    "seq": [("enter", 1), ("call", "call"), ("leave",), ("enter", 2), ("call", "call"), ("leave",), ("call", "call")],
    "seq_raise": [("enter", 1), ("raise_leave",), ("enter", 2), ("call", "call"), ("leave",), ("call", "call")],
    "one_base": [("enter", 1), ("call", "call"), ("base_leave",), ("call", "call")],
    "two_base_inner": [("enter", 1), ("enter", 2), ("base_leave",), ("call", "call"), ("leave",), ("call", "notify")],
}
NDICTS = {"ctor": 1, "one": 2, "one_raise": 2, "two": 3, "two_raise_inner": 3, "two_raise_outer": 3, "three": 4, "seq": 3, "seq_raise": 3, "one_base": 2, "two_base_inner": 3}


def obligations(tier, H):
    thorough = tier == "thorough"
    strlen = 3 if thorough else 2
    obs = []
    n = [0]
    names_small = (0, 1, 5, 7, 3, 4)      # X-A, x-a, content-type, user-agent, X-B, Content-Length
    names_all = tuple(range(len(H.NAMES)))

    def add(shape, leaves):
        n[0] += 1
        obs.append(D.make_ob("c18_{0:05d}".format(n[0]), shape, leaves, strlen, H=H, fn="h_headers", timeout=60))

    for prog, ops in PROGRAMS.items():
        nd = NDICTS[prog]
        pool = names_all if (thorough and nd <= 3) or nd <= 2 else names_small
        if nd == 4 and not thorough:
            pool = (0, 1, 5, 7)
        for combo in itertools.product(pool, repeat=nd):
            for ctor in ((True, False) if nd <= 2 or thorough else (True,)):
                dicts = []
                leaves = []
                consts = (0, 123, True, None, 1.5, False, -7)
                for k, name_idx in enumerate(combo):
                    leaf = "v{0}".format(k)
                    if k % 2 == 1:
                        # non-string values come from a table: str() of a symbolic number is
                        # realised by CrossHair and would never exhaust
                        n[0] += 0
                        dicts.append([(name_idx, ("const", consts[(len(obs) + k) % len(consts)]))])
                        continue
                    dicts.append([(name_idx, leaf)])
                    leaves.append((leaf, "str"))
                if thorough and nd <= 3:
                    # a second entry in the last dictionary
                    dicts[-1] = dicts[-1] + [(3 if combo[-1] != 3 else 0, "w")]
                    leaves.append(("w", "str"))
                shape = {"prog": prog, "ops": ops, "dicts": dicts, "ctor": ctor}
                add(shape, leaves)
    # dictionaries with two entries, a protected name (any letter case) first or second
    for prog in ("ctor", "one", "two"):
        nd = NDICTS[prog]
        for first, second in ((4, 0), (5, 3), (8, 7), (0, 4), (6, 5), (3, 9)):
            for where in range(nd):
                dicts, leaves = [], []
                for k in range(nd):
                    if k == where:
                        dicts.append([(first, "a{0}".format(k)), (second, "b{0}".format(k))])
                        leaves += [("a{0}".format(k), "str"), ("b{0}".format(k), "str")]
                    else:
                        dicts.append([(1, "v{0}".format(k))])
                        leaves.append(("v{0}".format(k), "str"))
                add({"prog": prog, "ops": PROGRAMS[prog], "dicts": dicts, "ctor": True}, leaves)
    return obs


def run(report, tier):
    import harness.c18 as H

    report.explanation = (
        "CrossHair executes the real ServerProxy(headers=), _additional_headers, TransportMixIn.push_headers/"
        "pop_headers/emit_additional_headers/send_content/send_request and xmlrpc Transport.request over "
        "a recording connection: one obligation per (block program: nesting/sequence of entering and "
        "leaving blocks normally or by exception, with plain calls, notifications and batches in "
        "between) x (header name of each dictionary from a table with case variants of ordinary names, "
        "Content-Length, Content-Type, User-Agent); header values symbolic (str, int, bool). Oracle: per "
        "lower-cased name exactly one line whose value is str() of the most recent definition, protected "
        "names untouched, configured User-Agent unless overridden, no other lines; after every block exit "
        "the transport's stack is element-wise identical to the one before entry."
    )
    report.bounds = {"stack": "constructor dictionary + <= 3 nested blocks (4 dictionaries)", "entries per dictionary": "1 (quick) / <= 2 (thorough)",
                     "names": "table of 10 spellings", "values": "str len <= 2/3, int, bool"}
    report.outside = ["two spellings of one name inside the same dictionary (no 'most recent' defined)", "real sockets (recording connection)"]
    report.assumptions = ["recording connection + fake 200 response with the token reply", "token codec stub"]
    report.trusted_base = ["crosshair-tool 0.0.110", "z3 5.1.0", "harness/c18.py oracle"]
    Runner(report, "harness.c18", tier).run(obligations(tier, H))
    report.functions |= traced_functions(H.h_headers, {"prog": "two", "ops": PROGRAMS["two"], "dicts": [[(0, "a")], [(1, "b")], [(6, "c")]], "ctor": True},
                                         {"a": "1", "b": 2, "c": "x"})
