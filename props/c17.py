"""
C17 -- wire framing is exact and body reassembly is independent of chunking.
"""
from engine.ch import Ob, Runner, traced_functions
from engine.obgen import pres_of

SAFE_PATH = "all(33 <= ord(c) <= 126 and c not in ';#?' for c in path)"
SAFE_QUERY = "all(33 <= ord(c) <= 126 and c != '#' for c in query)"


def obligations(tier, H):
    thorough = tier == "thorough"
    obs = []
    n = [0]

    # Budgets are wall-clock limits sized at >= 4x the slowest obligation measured on an idle 16-core
    # sandbox with all 16 workers busy (quick: do_POST/raises on the 16-byte text 77-86 s, url 50 s,
    # everything else < 35 s).  A budget costs nothing while the obligation confirms: CrossHair stops as
    # soon as the path tree is exhausted.  The first version gave 90 s and c17_0119 ran out of it on a
    # slower restore (DESIGN 7.6).
    def add(params, call, pre, shape, codes=(100,), timeout=480 if thorough else 240):
        n[0] += 1
        obs.append(Ob("c17_{0:04d}".format(n[0]), params, call, pre=pre, shape=shape, twin_codes=codes, timeout=timeout))

    blen = 8 if thorough else 4
    slen = 3 if thorough else 2
    # ---- client emit ---------------------------------------------------------------------
    for custom in (False, True):
        shape = {"part": "emit-bytes", "custom": custom}
        add("body: bytes, ctype: str", "H.h_emit_bytes({0!r}, body, ctype)".format(shape),
            ["len(body) <= {0}".format(blen), "len(ctype) <= {0}".format(slen)], shape)
    for text in range(len(H.TEXTS)):
        shape = {"part": "emit-text", "text": text}
        add("ctype: str", "H.h_emit_text({0!r}, ctype)".format(shape), ["len(ctype) <= {0}".format(slen)], shape)
    # ---- request target -----------------------------------------------------------------
    plen = 2  # (3 characters each does not finish within the budget: 113 s for one scheme in the probe)
    for scheme in ("http", "https", "unix+http", "HTTP"):
        for has_query in (False, True):
            for prefix in ("", "/a%20b", "/x/"):
                shape = {"part": "url", "scheme": scheme, "has_query": has_query, "prefix": prefix}
                pre = ["len(path) <= {0}".format(plen), "len(query) <= {0}".format(plen if has_query else 0), SAFE_PATH, SAFE_QUERY,
                       "path == '' or path[0] == '/'" if prefix == "" else "True"]
                add("path: str, query: str", "H.h_url({0!r}, path, query)".format(shape), pre, shape, timeout=480 if thorough else 240)
    for scheme, expect in (("http", "accept"), ("https", "accept"), ("unix+http", "accept"), ("ftp", "reject"), ("", "reject"),
                           ("file", "reject"), ("unix+ftp", "reject"), ("unix", "reject"), ("ws", "reject"), ("httpx", "reject"),
                           ("unix+https", "reject"),
                           # compound schemes: only the exact prefix "unix+" in front of http is a transport prefix
                           ("git+http", "reject"), ("svn+https", "reject"), ("unix+unix+http", "reject"), ("http+unix", "reject"),
                           ("+http", "reject"), ("unix+", "reject")):
        shape = {"part": "scheme", "scheme": scheme, "expect": expect}
        add("path: str", "H.h_scheme({0!r}, path)".format(shape), ["len(path) <= 2", SAFE_PATH, "path == '' or path[0] == '/'"], shape,
            codes=(100,) if expect == "accept" else (101,))
    # ---- client receive ------------------------------------------------------------------
    for text in range(len(H.TEXTS)):
        size = len(H.TEXTS[text].encode("utf-8"))
        shape = {"part": "jsontarget", "text": text}
        add("c1: int, c2: int", "H.h_target_chunks({0!r}, c1, c2)".format(shape), ["0 <= c1 <= c2 <= {0}".format(size)], shape)
        for gz in (False, True):
            for pad in ((0, 1019, 1020, 1021, 1022, 1023, 1024) if text in (5, 7) else (0,)):
                shape = {"part": "parse_response", "text": text, "gzip": gz, "pad": pad}
                add("chunk: int", "H.h_response_chunks({0!r}, chunk)".format(shape), ["1 <= chunk <= {0}".format(8 if not thorough else 16)], shape)
    # ---- server receive / reply ----------------------------------------------------------
    for text in range(len(H.TEXTS)):
        size = len(H.TEXTS[text].encode("utf-8"))
        for reply in ((None, 0, 5) if not thorough else (None,) + tuple(range(len(H.TEXTS)))):
            shape = {"part": "do_POST", "text": text, "reply": reply}
            add("c1: int, c2: int, ctype: str", "H.h_do_post({0!r}, c1, c2, ctype)".format(shape),
                ["0 <= c1 <= c2 <= {0}".format(size), "len(ctype) <= {0}".format(slen)], shape)
        # the peer announces more bytes than it sends and half-closes: the available text is dispatched
        shape = {"part": "do_POST", "text": text, "reply": 0, "missing": 3}
        add("c1: int, c2: int, ctype: str", "H.h_do_post({0!r}, c1, c2, ctype)".format(shape),
            ["0 <= c1 <= c2 <= {0}".format(size), "len(ctype) <= {0}".format(slen)], shape)
        shape = {"part": "do_POST", "text": text, "raises": True}
        add("c1: int, c2: int, ctype: str", "H.h_do_post({0!r}, c1, c2, ctype)".format(shape),
            ["0 <= c1 <= c2 <= {0}".format(size), "len(ctype) <= {0}".format(slen)], shape, codes=(101,), timeout=900 if thorough else 400)
    for reply in range(len(H.TEXTS)):
        for ctype in range(len(H.CTYPES)):
            # print() formats its arguments: the content type comes from a table
            shape = {"part": "cgi", "reply": reply, "ctype": ctype}
            add("", "H.h_cgi({0!r})".format(shape), [], shape)
    return obs


def run(report, tier):
    import harness.c17 as H

    report.explanation = (
        "CrossHair executes the real wire code symbolically: (emit) send_content with a symbolic byte body "
        "and symbolic content type, and the whole Transport.request path with table texts (ASCII, 2-, 3-, "
        "4-byte characters): Content-Length == bytes sent == UTF-8 of the text; (target) ServerProxy(uri) "
        "through the real urlparse with symbolic path and query strings per scheme; unsupported schemes "
        "rejected at construction; (receive, client) JSONTarget with two symbolic split points over table "
        "bodies and parse_response over a response whose reads return at most a symbolic number of bytes, "
        "identity and gzip, with padding placing a multi-byte character across the 1024-byte read "
        "boundary; (receive, server) do_POST with an rfile whose reads stop short at two symbolic cut "
        "points: the text handed to the dispatcher equals the decoding of the whole body, the reply's "
        "Content-length equals the bytes written; CGI reply framing."
    )
    report.bounds = {"byte bodies": "len <= 4 (quick) / 8 (thorough), all byte values", "texts": "table of 8 (empty, ASCII, 2/3/4-byte characters)",
                     "url path/query": "<= 2/3 printable ASCII characters each, plus fixed prefixes with percent-escapes",
                     "split points": "all pairs 0 <= c1 <= c2 <= len(body)", "read chunk": "1..8/16 bytes"}
    report.outside = ["bodies larger than the 10 MiB read-chunk constant (reached only through short reads)", "real sockets",
                      "text->bytes conversion of arbitrary symbolic text (C boundary: bytes(str, 'UTF-8') does not accept symbolic strings) -- texts come from a table",
                      "URLs with ';' parameters or '#' fragments (excluded by the property)"]
    report.assumptions = ["recording connection / fake response / short-reading rfile obey the contracts of http.client and file.read", "gzip/zlib trusted"]
    report.trusted_base = ["crosshair-tool 0.0.110", "z3 5.1.0", "harness/c17.py oracle"]
    Runner(report, "harness.c17", tier).run(obligations(tier, H))
    report.functions |= traced_functions(H.h_do_post, {"text": 5, "reply": 5}, 3, 7, "a/b")
    report.functions |= traced_functions(H.h_emit_text, {"text": 5}, "a/b")
    report.functions |= traced_functions(H.h_cgi, {"reply": 5, "ctype": 0})
    report.functions |= traced_functions(H.h_url, {"scheme": "http", "has_query": True, "prefix": ""}, "/p", "q=1")
    report.functions |= traced_functions(H.h_response_chunks, {"text": 5, "gzip": True, "pad": 1021}, 7)
