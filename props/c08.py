"""
C08 -- class translation is inert when disabled and validates names before importing.
z3 (strings/regex) decides the name validation for all strings from the current
source of jsonclass.load; CrossHair decides control flow and tripwires.
"""
import os
import time

from engine import smts
from engine.common import REPO
from engine.ch import Runner, traced_functions
from props import dispshapes as D

DESCS = ("notlist", "int", "null", "len0", "len1", "len3", "name_int", "name_list", "name_null", "params_int", "params_str", "params_null")
DEPTHS = ("top", "param", "nested", "kw", "id", "batch")


def smt_part(report):
    import z3

    path = os.path.join(REPO, "jsonrpclib", "jsonclass.py")
    source = open(path).read()
    try:
        guard = smts.translate_load(source)
    except smts.Unsupported as ex:
        report.inconclusive.append("obligation=smts_translate reason=unsupported construct on the way to the sink: {0}".format(ex))
        return None
    report.functions.add("jsonrpclib/jsonclass.py:load (name validation prefix, {0} statements)".format(guard.statements))
    s = z3.String("s")
    try:
        pc = smts.path_condition(guard, s)
    except smts.Unsupported as ex:
        report.inconclusive.append("obligation=smts_pc reason={0}".format(ex))
        return None
    valid = smts.valid_alphabet_re()
    # (1) unbounded: a sink is reached only for non-empty names over [A-Za-z0-9_.]
    bad = z3.Or(s == z3.StringVal(""), z3.Not(z3.InRe(s, valid)))
    report.obligations += 1
    res, model, cpu = smts.solve(z3.And(pc, bad))
    report.solver_cpu_s += cpu
    report.count_query("z3-strings")
    sample = {"obligation": "smts_unbounded", "pattern": guard.pattern, "conditions": guard.conditions, "sink": guard.sink, "result": res}
    if res == "unsat":
        report.discharged += 1
        report.shapes.add("smts_unbounded")
    elif res == "sat":
        name = model.eval(s, model_completion=True).as_string()
        name = bytes(name, "utf-8").decode("unicode_escape") if "\\u" in name else name
        replay_name(report, name, "smts_unbounded")
        sample["counterexample"] = name
    else:
        report.inconclusive.append("obligation=smts_unbounded reason=z3 answered {0}".format(res))
    report.add_sample(sample)
    # (2) bounded exact, |s| <= 8, re.sub expanded per character
    for n, res, cpu, model in smts.bounded_exact(guard, 8):
        report.obligations += 1
        report.solver_cpu_s += cpu
        report.count_query("z3-lia")
        if res == "unsat":
            report.discharged += 1
            report.shapes.add("smts_exact_len{0}".format(n))
        elif res == "sat":
            name = "".join(chr(model.eval(z3.Int("c%d" % i), model_completion=True).as_long()) for i in range(n))
            replay_name(report, name, "smts_exact_len{0}".format(n))
        else:
            report.inconclusive.append("obligation=smts_exact_len{0} reason=z3 answered {1}".format(n, res))
    # (3) twin: the sink is reachable (and the model really reaches it)
    report.twins += 1
    res, model, cpu = smts.solve(z3.And(pc, z3.Length(s) >= 3, z3.Contains(s, z3.StringVal("."))))
    report.solver_cpu_s += cpu
    if res == "sat":
        name = model.eval(s, model_completion=True).as_string()
        if reaches_sink(name):
            report.twins_refuted += 1
            report.add_sample({"obligation": "smts_twin", "witness": name})
        else:
            report.inconclusive.append("obligation=smts_twin reason=model {0!r} does not reach a sink on the real code".format(name))
    else:
        report.inconclusive.append("obligation=smts_twin reason=vacuous: path condition {0}".format(res))
    # (4) translation validation: encoding vs. real function on the name tables
    import harness.c08 as H

    mismatches = 0
    checked = 0
    for name in H.VALID_NAMES + H.INVALID_NAMES + ("a", "A.b", "x" * 9, "a.b.c.d", "_", ".", "..", "0.1"):
        try:
            enc = smts.solve(z3.And(pc, s == z3.StringVal(name)))[0] == "sat"
        except Exception:  # noqa
            continue
        real = reaches_sink(name)
        checked += 1
        if enc != real:
            mismatches += 1
            report.inconclusive.append("obligation=smts_validation reason=encoding says {0} but real code says {1} for {2!r}".format(enc, real, name))
    report.extra["smts_translation_validation"] = {"names": checked, "mismatches": mismatches}
    return guard


def reaches_sink(name):
    """
    Runs the real jsonclass.load on a descriptor with this name; True iff an
    import / class-table lookup / construction is attempted.
    """
    import builtins
    import jsonrpclib.jsonclass as jsonclass

    hits = []

    def imp(modname, *args, **kwargs):
        hits.append(modname)
        raise ImportError("tripwire")

    class Table(dict):
        def __getitem__(self, key):
            hits.append(key)
            raise KeyError(key)

    jsonclass.__dict__["__import__"] = imp
    try:
        table = Table()
        table["x"] = int
        try:
            jsonclass.load({"__jsonclass__": [name, []]}, table)
        except Exception:  # noqa
            pass
    finally:
        jsonclass.__dict__.pop("__import__", None)
    return bool(hits)


def replay_name(report, name, label):
    if reaches_sink(name):
        path = report.write_replay(label, {"property": "C08", "class_name": name, "codepoints": [ord(c) for c in name],
                                            "observed": "jsonclass.load attempted an import / class lookup for this name"})
        report.violation("name {0!r} reaches an import/lookup".format(name), path)
    else:
        report.inconclusive.append("obligation={0} reason=solver model {1!r} does not reproduce on the real code".format(label, name))


def obligations(tier, H):
    thorough = tier == "thorough"
    strlen = 3 if thorough else 2
    obs = []
    n = [0]
    names = H.VALID_NAMES + H.INVALID_NAMES
    leaves = [("v", "int"), ("s", "str"), ("i", "int")]

    def add(shape, fn):
        n[0] += 1
        obs.append(D.make_ob("c08_{0:05d}".format(n[0]), shape, leaves, strlen, H=H, fn=fn, timeout=60))

    # ---- disabled ---------------------------------------------------------------------
    for entry, side in (("load", "server"), ("loads", "server"), ("server", "server"), ("client", "client"), ("load", "client")):
        for depth in DEPTHS:
            if entry == "server" and depth in ("top", "id", "batch") and not thorough:
                pass
            for name in range(len(names)):
                if not thorough and name % 4 != 1 and names[name] not in ("harness.jclasses.Canary", "", "a.b\n"):
                    continue
                for params in ("list", "dict"):
                    if params == "dict" and not thorough:
                        continue
                    add({"entry": entry, "side": side, "depth": depth, "desc": "wellformed", "name": name, "params": params}, "h_off")
                    if entry == "server" and names[name] == "harness.jclasses.Canary" and (thorough or depth in ("param", "nested")):
                        for kind in ("simple", "pooled"):
                            add({"entry": entry, "side": side, "depth": depth, "desc": "wellformed", "name": name, "params": params,
                                 "server": kind}, "h_off")
            for desc in DESCS:
                add({"entry": entry, "side": side, "depth": depth, "desc": desc}, "h_off")
                if entry == "server" and (thorough or depth in ("param", "nested")):
                    # the configuration must reach every server class
                    for kind in ("simple", "pooled"):
                        add({"entry": entry, "side": side, "depth": depth, "desc": desc, "server": kind}, "h_off")
    # ---- enabled ----------------------------------------------------------------------
    for entry, side in (("jsonclass", "server"), ("load", "server"), ("loads", "client"), ("server", "server"), ("client", "client")):
        for depth in DEPTHS:
            for name in range(len(names)):
                if not thorough and depth not in ("top", "param", "nested") and name % 3 != 0:
                    continue
                for params in ("list", "dict"):
                    for classes in (False, True):
                        if not thorough and (params == "dict" or classes) and depth != "param":
                            continue
                        add({"entry": entry, "side": side, "depth": depth, "desc": "wellformed", "name": name, "params": params, "classes": classes}, "h_on")
            for desc in DESCS:
                add({"entry": entry, "side": side, "depth": depth, "desc": desc}, "h_on")
                if entry == "server" and (thorough or depth in ("param", "nested")):
                    for kind in ("simple", "pooled"):
                        add({"entry": entry, "side": side, "depth": depth, "desc": desc, "server": kind}, "h_on")
    return obs


def run(report, tier):
    import harness.c08 as H

    report.explanation = (
        "Two engines. (1) SMT-S: the class-name validation of jsonclass.load is translated from the "
        "current source (module constant INVALID_MODULE_CHARS parsed with Python's own regex parser) into "
        "z3 strings/regex; z3 decides for ALL strings that an import / class-table lookup / construction "
        "is reached only for non-empty names over [A-Za-z0-9_.] (unbounded query via the regex form of "
        "re.sub(P,'',s) != s, and an exact per-character expansion for |s| <= 8 over all code points); a "
        "twin shows the sink reachable and is replayed on the real function; the encoding is validated "
        "against the real function on the name tables. (2) CrossHair: per (entry point x side x depth of "
        "the '__jsonclass__' member x descriptor form or table name) with tripwires on jsonclass.load/"
        "dump, __import__ and a canary constructor: translation off => payload returned verbatim and no "
        "tripwire fires; on => invalid names rejected before any import/construction with "
        "TranslationError, server answers -32700 and runs nothing."
    )
    report.bounds = {"names (CrossHair)": "table of 7 valid and 30 invalid names incl. trailing newline, NUL, non-ASCII, full-width letters",
                     "names (z3)": "all strings (unbounded query) and all strings of <= 8 code points (exact expansion)",
                     "descriptor forms": "12 malformed forms + well-formed", "depth": "6 positions in requests and responses"}
    report.outside = ["z3's character range (0..0x2FFFF) in the unbounded query; the exact expansion covers 0..0x10FFFF",
                      "regex constructs other than a single character class make the SMT-S part inconclusive (fail closed)"]
    report.assumptions = ["re.sub(P,'',s) != s <=> s contains a character matching P (only for the unbounded query)", "token codec stub"]
    report.trusted_base = ["z3 5.1.0 strings/regex", "crosshair-tool 0.0.110", "engine/smts.py translator", "harness/c08.py oracle"]
    smt_part(report)
    Runner(report, "harness.c08", tier).run(obligations(tier, H))
    report.functions |= traced_functions(H.h_on, {"entry": "server", "side": "server", "depth": "nested", "desc": "wellformed", "name": 8}, {"v": 1, "s": "x", "i": 2})
    report.functions |= traced_functions(H.h_off, {"entry": "client", "side": "client", "depth": "param", "desc": "wellformed", "name": 1}, {"v": 1, "s": "x", "i": 2})
