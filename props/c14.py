"""
C14 -- message construction API emits exactly the members each version requires.
Decided by CrossHair per (api, version, config, flags, params kind, method kind,
rpcid kind) shape with ids, method text, parameter leaves and Fault fields symbolic.
"""
from engine.ch import Ob, Runner, traced_functions
from engine.obgen import params_of, ldict, pres_of

PARAM_LEAVES = {
    "list": [("p1", "int"), ("p2", "str")],
    "tuple": [("p1", "int"), ("p2", "str")],
    "dict": [("p1", "int"), ("p2", "str")],
    "nested": [("p1", "int"), ("p2", "str")],
    "elist": [], "etuple": [], "edict": [], "none": [],
    "int": [("p1", "int")],
    "str": [("p2", "str")],
    # values the class translation would turn into a list / dictionary: still not parameter containers
    "set": [], "fset": [], "bean": [("p1", "int")], "object": [],
    "fault": [("fcode", "int"), ("fmsg", "str")],
    "fault_data": [("fcode", "int"), ("fmsg", "str"), ("fdata", "int")],
}
RID_TYPES = {"int": "int", "float": "float", "str": "str"}


def twin_codes(shape):
    """
    Pass codes reachable for a shape (computed with the same precedence as the oracle).
    """
    params, method, resp, notify = shape["params"], shape["method"], shape["resp"], shape["notify"]
    container = params in ("list", "tuple", "dict", "nested", "elist", "etuple", "edict") or (params == "none" and not resp)
    fault = params.startswith("fault")
    if method == "str" and not (container or fault or (resp and params == "none")):
        return (104,)
    if fault:
        return (103,)
    if method != "str" and not resp:
        return (104,)
    if resp:
        return (104,) if shape["rpcid"] == "none" else (102,)
    if notify:
        return (101,)
    return (100,)


def obligations(tier):
    thorough = tier == "thorough"
    strlen = 3 if thorough else 2
    versions = [(None, "default"), (None, "v1"), (1.0, "default"), ("2.0", "v1")]
    if thorough:
        versions += [(2.0, "v1raw"), ("1.0", "v2raw"), (None, "v2raw"), (None, "v1raw")]
    flags = [(None, None), (True, None), (None, True), (True, True)]
    if thorough:
        flags += [(False, False)]
    rpcids = ["int", "float", "str", "none"]
    obs = []
    n = 0

    def add(shape, leaves, fn="h_dump", codes=None):
        nonlocal n
        n += 1
        obs.append(
            Ob(
                "c14_{0:04d}".format(n),
                params_of(leaves),
                "H.{0}({1!r}, {2})".format(fn, shape, ldict(leaves)),
                pre=pres_of(leaves, strlen),
                shape=shape,
                twin_codes=codes or twin_codes(shape),
                timeout=40,
            )
        )

    apis = ["dump", "dumps", "loads"]
    for api in apis:
        for version, cfg in versions:
            for resp, notify in flags:
                # --- string method: the full cross product -------------------
                for params in PARAM_LEAVES:
                    for rid in rpcids:
                        if api != "dump" and not thorough:
                            # quick: dumps/loads on a diagonal of the space
                            if (len(obs) + n) % 3 != 0 and not (params in ("list", "fault_data") and rid == "int"):
                                n += 0
                                continue
                        leaves = [("m", "str")] + PARAM_LEAVES[params]
                        if rid != "none":
                            leaves.append(("rid", RID_TYPES[rid]))
                        shape = {"api": api, "version": version, "cfg": cfg, "resp": resp, "notify": notify,
                                 "params": params, "method": "str", "rpcid": rid}
                        add(shape, leaves)
                # --- non-string method ---------------------------------------
                for method in ("none", "int"):
                    for params in ("list", "none", "fault", "int"):
                        for rid in ("int", "none"):
                            if api != "dump" and not thorough:
                                continue
                            leaves = list(PARAM_LEAVES[params])
                            if method == "int" and ("p1", "int") not in leaves:
                                leaves.append(("p1", "int"))
                            if rid != "none":
                                leaves.append(("rid", "int"))
                            shape = {"api": api, "version": version, "cfg": cfg, "resp": resp, "notify": notify,
                                     "params": params, "method": method, "rpcid": rid}
                            add(shape, leaves)
    for cfg in ("default", "v1raw"):
        add({"cfg": cfg}, [], fn="h_loads_empty", codes=(105,))
    for api in ("fault_dump", "fault_response"):
        for version, cfg in versions:
            for data in ("int", "none"):
                for rid in rpcids:
                    leaves = [("fcode", "int"), ("fmsg", "str")]
                    if data == "int":
                        leaves.append(("fdata", "int"))
                    if rid != "none":
                        leaves.append(("rid", RID_TYPES[rid]))
                    add({"api": api, "version": version, "cfg": cfg, "data": data, "rpcid": rid}, leaves,
                        fn="h_fault", codes=(103,))
    return obs


def run(report, tier):
    report.explanation = (
        "CrossHair executes the real jsonrpc.dump/dumps/loads, Payload and Fault code symbolically; "
        "one obligation per (api, version argument, Config, methodresponse/notify flags, params kind, "
        "method kind, rpcid kind); rpcid (int/float/str), method text, parameter leaves and Fault "
        "code/message/data are symbolic. The oracle rebuilds the exact member set from the property text."
    )
    report.bounds = {
        "strings": "len <= 2 (quick) / 3 (thorough)",
        "params": "containers of <= 3 entries, nesting <= 2",
        "versions": "None/1.0/2.0/'1.0'/'2.0' x Config version 1.0/2.0 (quick: 4 combinations, thorough: 8)",
    }
    report.outside = ["bool rpcid", "encoding argument other than the default", "params containing custom objects (C07)"]
    report.assumptions = [
        "token codec stub for jdumps/jloads", "uuid stub: every call returns a value never returned before",
        "finite floats modelled as reals by CrossHair",
    ]
    report.trusted_base = ["crosshair-tool 0.0.110", "z3 5.1.0", "harness/c14.py oracle", "harness/stubs.py"]
    obs = obligations(tier)
    Runner(report, "harness.c14", tier).run(obs)
    import harness.c14 as H

    for sh, L in (
        ({"api": "loads", "version": None, "cfg": "default", "resp": None, "notify": None, "params": "nested", "method": "str", "rpcid": "int"},
         {"m": "x", "p1": 1, "p2": "s", "rid": 0}),
        ({"api": "dumps", "version": 1.0, "cfg": "default", "resp": True, "notify": None, "params": "fault_data", "method": "none", "rpcid": "int"},
         {"fcode": 1, "fmsg": "s", "fdata": 2, "rid": 3}),
        ({"api": "dump", "version": 1.0, "cfg": "default", "resp": None, "notify": True, "params": "list", "method": "str", "rpcid": "none"},
         {"m": "x", "p1": 1, "p2": "s"}),
    ):
        report.functions |= traced_functions(H.h_dump, sh, L)
