"""
Pool scenarios shared by C09, C10, C11 (and the pool part of C04/C12): client
program generator, window prefixes, property library over the compiled
transition system of ThreadPool / FutureResult / EventData.
"""
from engine.ts import bmc, driver, lower
from engine.ts.core import eq, ne, le, ge, lt, gt, and_, or_, not_, truthy, add, ite

AWAIT = '''try:
    r{i} = f{i}.result(None)
    s{i} = 1
except Exception as x{i}:
    s{i} = 2
    e{i} = x{i}
d{i} = f{i}.done()
'''


def program(ops):
    """
    ops: list of op strings -> client program text.
      start | stop | enq<i> | await<i> | join<k> | joint<k> (join with timeout) | open<g>
    After every op the local `prog` records how many ops have completed.
    """
    lines = ["global stop_returned, pool_serving, shutdown_request, socket_closed\n"]
    for k, op in enumerate(ops):
        if op.startswith("raw:"):
            lines.append(op[4:])
        elif op == "start":
            lines.append("stop_returned = False\npool.start()\npool_serving = True\n")
        elif op == "stop":
            lines.append("pool_serving = False\npool.stop()\nstop_returned = True\n")
        elif op.startswith("enq"):
            i = int(op[3:])
            lines.append("f{0} = pool.enqueue(TASK{0})\n".format(i))
        elif op.startswith("await"):
            lines.append(AWAIT.format(i=int(op[5:])))
        elif op.startswith("joinz"):
            lines.append("jz{0} = pool.join(NOWAIT)\n".format(op[5:]))
        elif op.startswith("joint"):
            lines.append("jt{0} = pool.join(TMO)\n".format(op[5:]))
        elif op.startswith("join"):
            lines.append("j{0} = pool.join(None)\n".format(op[4:]))
        elif op.startswith("open"):
            lines.append("GATE{0}.set()\n".format(int(op[4:])))
        else:
            raise ValueError(op)
        lines.append("prog = {0}\n".format(k + 1))
    return "".join(lines)


def line_of(ops, op_index):
    """line number (1-based) of the first statement of ops[op_index] in program(ops)"""
    return program(ops[:op_index]).count("\n") + 1


def field(S, suffix):
    keys = [k for k in S if k.startswith("P.") and k.endswith(suffix)]
    return S[keys[0]] if len(keys) == 1 else None


def build(spec):
    U = lower.Universe(workers=spec.get("W", spec["max"] + 1), tasks=len(spec["tasks"]), clients=len(spec["clients"]),
                       task_kinds=spec["tasks"], max_threads=spec["max"], min_threads=spec["min"],
                       queue_size=spec.get("queue_size", 0), timeout_none=spec.get("timeout_none", False),
                       gates=spec.get("gates", 1), regs=1, qcap=spec.get("qcap", 6))
    programs = [program(ops) for ops in spec["clients"]]
    system, lo = lower.build_system(driver.read_source(), driver.NORMALISED, U, programs,
                                    allow_start_failure=spec.get("start_failure", False))
    system.classify()
    C, M, W = U.C, U.M, U.W

    def clients_done(S):
        return and_(*[lt(S["T{0}.pc".format(c)], 0) for c in range(C)])

    awaited = {}  # task -> client
    enq_by = {}
    for c, ops in enumerate(spec["clients"]):
        for op in ops:
            if op.startswith("await"):
                awaited[int(op[5:])] = c
            if op.startswith("enq"):
                enq_by.setdefault(c, []).append(int(op[3:]))
    props = []
    want = spec["props"]
    if "exactly_once" in want:
        props.append(bmc.Prop("no task is executed twice", lambda S: and_(*[le(S["exec_count[{0}]".format(i)], 1) for i in range(M)])))
        props.append(bmc.Prop("only enqueued tasks are executed", lambda S: not_(S["bad_task"])))
    if "no_run_after_stop" in want:
        props.append(bmc.Prop("no task starts after stop() has returned", lambda S: not_(S["ran_while_stopped"])))
    if "results" in want:
        def results(S):
            conj = []
            for i, c in awaited.items():
                v = lambda name, c=c: S["T{0}.client{0}.{1}".format(c, name)]  # noqa
                kind = U.task_kinds[i]
                ok_ret = and_(eq(v("r%d" % i), U.RES0 + i), eq(S["exec_count[{0}]".format(i)], 1), kind != "raise", S["finished[{0}]".format(i)])
                ok_exc = and_(eq(v("e%d" % i), U.EXC0 + i), eq(S["exec_count[{0}]".format(i)], 1), kind == "raise", S["finished[{0}]".format(i)])
                conj.append(or_(ne(v("s%d" % i), 1), ok_ret))
                conj.append(or_(ne(v("s%d" % i), 2), ok_exc))
            return and_(*conj)

        props.append(bmc.Prop("result() delivers the task's own object / exception after exactly one execution", results))

        def done_after(S):
            conj = []
            for i, c in awaited.items():
                key = "T{0}.client{0}.d{1}".format(c, i)
                pcdone = lt(S["T{0}.pc".format(c)], 0)
                conj.append(or_(not_(pcdone), truthy(S[key])))
            return and_(*conj)

        props.append(bmc.Prop("done() is True after result() returned", done_after))
    if "nodeadlock" in want:
        props.append(bmc.Prop("no deadlock while a client still waits (every accepted task gets executed, stop()/join() return)",
                              None, kind="nodeadlock", when=lambda S: not_(clients_done(S)), finding=spec.get("deadlock_finding")))
    if "fifo" in want and spec["max"] == 1:
        def fifo(S):
            conj = []
            for c, tasks in enq_by.items():
                for a, b in zip(tasks, tasks[1:]):
                    sa, sb = S["start_order[{0}]".format(a)], S["start_order[{0}]".format(b)]
                    conj.append(or_(lt(sb, 0), and_(ge(sa, 0), lt(sa, sb))))
            return and_(*conj)

        props.append(bmc.Prop("a single worker starts tasks in submission order", fifo))
    if "bounded" in want:
        props.append(bmc.Prop("at most max_threads tasks execute at any instant", lambda S: le(S["max_running"], U.max_threads)))

        def counters(S):
            n = field(S, "__nb_threads")
            if n is None:
                return True
            return and_(ge(n, 0), le(n, U.max_threads))

        props.append(bmc.Prop("the pool's worker count stays within [0, max_threads]", counters))

        def alive(S):
            total = 0
            for w in range(W):
                total = add(total, ite(eq(S["W.state[{0}]".format(w)], 2), 1, 0))
            # workers that already decided to retire (counter decremented) may still be exiting
            n = field(S, "__nb_threads")
            return le(total, add(U.max_threads, W)) if n is None else True

        props.append(bmc.Prop("worker bookkeeping", alive))
    if "min_workers" in want:
        def minw(S):
            total = 0
            for w in range(W):
                total = add(total, ite(eq(S["W.state[{0}]".format(w)], 2), 1, 0))
            return or_(not_(S["pool_serving"]), ge(total, U.min_threads))

        props.append(bmc.Prop("between start() and stop() at least min_threads workers are alive", minw))
    if "join" in want:
        covers = spec.get("join_covers", {})

        def joined(S):
            conj = []
            for c, ops in enumerate(spec["clients"]):
                for op in ops:
                    if op.startswith("join") and not op.startswith("joint"):
                        key = "T{0}.client{0}.j{1}".format(c, op[4:])
                        fin = and_(*[S["finished[{0}]".format(i)] for i in covers.get(op, [])])
                        conj.append(or_(not_(truthy(S[key])), fin))
            return and_(*conj)

        props.append(bmc.Prop("join() returned True only after every earlier task finished", joined, finding=spec.get("join_finding")))
    if "drained_once" in want:
        covers = spec.get("join_covers", {})

        def drained(S):
            conj = []
            for c, ops in enumerate(spec["clients"]):
                for op in ops:
                    if op.startswith("join") and not op.startswith("joint"):
                        key = "T{0}.client{0}.j{1}".format(c, op[4:])
                        once = and_(*[eq(S["exec_count[{0}]".format(i)], 1) for i in covers.get(op, [])])
                        conj.append(or_(not_(truthy(S[key])), once))
            return and_(*conj)

        props.append(bmc.Prop("once the pool is drained every enqueued notification task has run exactly once", drained))
    if "stopped_clean" in want:
        def clean(S):
            conj = [ne(S["W.state[{0}]".format(w)], 2) for w in range(W)]
            conj += [not_(S[k]) for k in S if k.startswith("P._threads[")]
            return and_(*conj)

        props.append(bmc.Prop("after stop() returned every worker has terminated and the thread list is empty", clean, kind="final",
                              when=lambda S: and_(clients_done(S), S["stop_returned"])))
    if "socket" in want:
        props.append(bmc.Prop("after server_close() returned the listening socket is closed", lambda S: truthy(S["socket_closed"]),
                              kind="final", when=lambda S: lt(S["T0.pc"], 0)))
    twin = clients_done
    if spec.get("twin_prog") == "none":
        twin = None  # the window is expected to end in the (listed) deadlock: its witness is the reachability evidence
    elif spec.get("twin_prog") == "progress":
        twin = "progress"
    elif spec.get("twin_prog") is not None:
        goal = spec["twin_prog"]
        twin = lambda S: ge(S["T0.client0.prog"], goal)  # noqa
    prefix = list(spec.get("prefix", []))
    if spec.get("window_at") is not None:
        # (statement boundaries are fused into macro-steps: the window starts when the
        # client's progress counter shows that the first `window_at` operations completed)
        nthreads = len(spec["clients"]) + spec.get("W", spec["max"] + 1)
        who = [t for t in range(nthreads) if t not in spec.get("hold", [])]
        if spec.get("prefix_order") == "workers_first":
            # a different history leading to the window: workers are scheduled before the client in every round
            who = [t for t in who if t != 0] + [0]
        prefix = [("rr_prog", 0, spec["window_at"], who)] + prefix
    spec = dict(spec, prefix=prefix)
    return {"system": system, "lo": lo, "universe": U, "clients": programs, "props": props, "twin": twin,
            "prefix": spec.get("prefix", []), "uses_pool": True}
