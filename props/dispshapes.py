"""
Request-shape generators shared by the dispatcher-family checks.
A shape is a dict understood by harness/disp.py; leaves are (name, type) pairs.
"""
import itertools

from engine.ch import Ob
from engine.obgen import params_of, ldict, pres_of, dedup

MEMBERS = ("jsonrpc", "id", "method", "params")

# generic value kinds for a member; `p` is the leaf-name prefix
GENERIC = ("absent", "null", "bool", "int", "float", "str", "estr", "list", "dict")
METHOD_NAMES = ("echo", "add2", "boom", "retv", "nosuch")


def kind_spec(kind, p):
    """
    (spec, leaves) for a generic kind
    """
    if kind == "absent":
        return ("absent",), []
    if kind == "null":
        return ("const", None), []
    if kind == "estr":
        return ("const", ""), []
    if kind == "bool":
        return ("leaf", p + "b"), [(p + "b", "bool")]
    if kind == "int":
        return ("leaf", p + "i"), [(p + "i", "int")]
    if kind == "float":
        return ("leaf", p + "f"), [(p + "f", "float")]
    if kind == "str":
        return ("leaf", p + "s"), [(p + "s", "str")]
    if kind == "list":
        return ("list", [("leaf", p + "i")]), [(p + "i", "int")]
    if kind == "dict":
        return ("dict", {"k": ("leaf", p + "s")}), [(p + "s", "str")]
    if kind == "zero":
        return ("const", 0), []
    if kind == "false":
        return ("const", False), []
    if kind == "elist":
        return ("const", []), []
    if kind == "edict":
        return ("const", {}), []
    raise ValueError(kind)


def member_spec(member, kind, p):
    """
    Member-specific kinds on top of the generic ones.
    """
    if member == "jsonrpc" and kind == "v2":
        return ("const", "2.0"), []
    if member == "method" and kind.startswith("m:"):
        return ("const", kind[2:]), []
    if member == "params":
        if kind == "args2":
            return ("list", [("leaf", p + "i"), ("leaf", p + "s")]), [(p + "i", "int"), (p + "s", "str")]
        if kind == "args1":
            return ("list", [("leaf", p + "i")]), [(p + "i", "int")]
        if kind == "args3":
            return ("list", [("leaf", p + "i"), ("const", None), ("const", [])]), [(p + "i", "int")]
        if kind == "kwab":
            return ("dict", {"a": ("leaf", p + "i"), "b": ("leaf", p + "s")}), [(p + "i", "int"), (p + "s", "str")]
        if kind == "kwa":
            return ("dict", {"a": ("leaf", p + "i")}), [(p + "i", "int")]
        if kind == "kwx":
            return ("dict", {"x": ("leaf", p + "i")}), [(p + "i", "int")]
        if kind == "bean":
            return (("list", [("dict", {"__jsonclass__": ("const", ["harness.jclasses.Plain", []]), "a": ("leaf", p + "i")})]),
                    [(p + "i", "int")])
        if kind == "nested":
            return (
                ("list", [("list", [("leaf", p + "i"), ("const", [])]), ("dict", {"k": ("leaf", p + "s"), "e": ("const", {})})]),
                [(p + "i", "int"), (p + "s", "str")],
            )
    return kind_spec(kind, p)


def entry(kinds, p=""):
    """
    kinds: dict member -> kind.  Returns (spec, leaves)
    """
    members = {}
    leaves = []
    for member in MEMBERS:
        kind = kinds.get(member, "absent")
        spec, lv = member_spec(member, kind, p + member[0] + "_")
        members[member] = spec
        leaves += lv
    if kinds.get("jsonrpc", "absent") == "absent" and kinds.get("id", "absent") == "absent":
        # a request without version marker is formatted into the error message
        # ("Request {0} invalid."): str.format realises symbolic values, so the
        # leaves of such entries are concrete
        return concretise(("dict", members)), []
    return ("dict", members), leaves


CONCRETE = {"b": True, "i": 7, "f": 2.5, "s": "txt"}


def concretise(spec):
    if spec[0] == "leaf":
        return ("const", CONCRETE.get(spec[1][-1], 7))
    if spec[0] == "list":
        return ("list", [concretise(s) for s in spec[1]])
    if spec[0] == "dict":
        return ("dict", {k: concretise(v) for k, v in spec[1].items()})
    return spec


BASE = {"jsonrpc": "v2", "id": "int", "method": "m:echo", "params": "args2"}

MEMBER_KINDS = {
    "jsonrpc": GENERIC + ("v2",),
    "id": GENERIC,
    "method": ("absent", "null", "bool", "int", "float", "estr", "list", "dict") + tuple("m:" + n for n in METHOD_NAMES),
    "params": GENERIC + ("elist", "edict", "args1", "args2", "args3", "kwab", "kwa", "kwx", "nested"),
}


def skeletons_pairwise():
    """
    All skeletons that differ from the valid base request in at most two members.
    """
    seen = set()
    out = []
    for m1, m2 in itertools.combinations(MEMBERS, 2):
        for k1 in MEMBER_KINDS[m1]:
            for k2 in MEMBER_KINDS[m2]:
                kinds = dict(BASE)
                kinds[m1] = k1
                kinds[m2] = k2
                key = tuple(sorted(kinds.items()))
                if key not in seen:
                    seen.add(key)
                    out.append(kinds)
    return out


def skeletons_full(method_kinds=None, params_kinds=None):
    out = []
    for kj in MEMBER_KINDS["jsonrpc"]:
        for ki in MEMBER_KINDS["id"]:
            for km in method_kinds or MEMBER_KINDS["method"]:
                for kp in params_kinds or MEMBER_KINDS["params"]:
                    out.append({"jsonrpc": kj, "id": ki, "method": km, "params": kp})
    return out


# batch entries ----------------------------------------------------------------

BATCH_ENTRIES = {
    "call": {"jsonrpc": "v2", "id": "int", "method": "m:echo", "params": "args1"},
    "call_sid": {"jsonrpc": "v2", "id": "str", "method": "m:echo", "params": "args1"},
    "call10": {"id": "int", "method": "m:echo", "params": "args1"},
    "raise": {"jsonrpc": "v2", "id": "int", "method": "m:boom", "params": "args1"},
    "unknown": {"jsonrpc": "v2", "id": "int", "method": "m:nosuch", "params": "args1"},
    "badconv": {"jsonrpc": "v2", "id": "int", "method": "m:badconv", "params": "args1"},
    "arity": {"jsonrpc": "v2", "id": "int", "method": "m:add2", "params": "args1"},
    "notif20": {"jsonrpc": "v2", "method": "m:echo", "params": "args1"},
    "notif10": {"id": "null", "method": "m:echo", "params": "args1"},
    "notif_estr": {"jsonrpc": "v2", "id": "estr", "method": "m:echo", "params": "args1"},
    "notif_raise": {"jsonrpc": "v2", "method": "m:boom", "params": "args1"},
    "notif_unknown": {"jsonrpc": "v2", "method": "m:nosuch", "params": "args1"},
    "notif_arity": {"jsonrpc": "v2", "method": "m:add2", "params": "args1"},
    "nomethod": {"jsonrpc": "v2", "id": "int", "params": "args1"},
    "noversion": {"method": "m:echo", "params": "args1"},
    "scalarparams": {"jsonrpc": "v2", "id": "int", "method": "m:echo", "params": "int"},
}
NONDICT_ENTRIES = {
    "nd_int": "int",
    "nd_str": "str",
    "nd_null": "null",
    "nd_list": "list",
    "nd_elist": "elist",
}


def batch_entry(name, p):
    if name in NONDICT_ENTRIES:
        return kind_spec(NONDICT_ENTRIES[name], p)
    return entry(BATCH_ENTRIES[name], p)


def batch(names):
    specs = []
    leaves = []
    for i, name in enumerate(names):
        spec, lv = batch_entry(name, "e{0}".format(i))
        specs.append(spec)
        leaves += lv
    return ("list", specs), leaves


# obligation construction -------------------------------------------------------


def sample_leaves(leaves):
    vals = {"int": 3, "float": 1.5, "str": "s", "bool": True}
    return {n: vals[t] for n, t in leaves}


def make_ob(name, shape, leaves, strlen, fn="h_dispatch", timeout=40, extra_leaves=(), H=None, pre=()):
    """
    Builds the Ob; twin code from a native sample run of the harness.
    """
    leaves = dedup(list(leaves) + list(extra_leaves))
    codes = (100,)
    if H is not None:
        try:
            sample = getattr(H, fn)(shape, sample_leaves(leaves))
            if isinstance(sample, int) and sample >= 100:
                codes = (sample,)
        except Exception:  # noqa
            pass
    return Ob(
        name,
        params_of(leaves),
        "H.{0}({1!r}, {2})".format(fn, shape, ldict(leaves)),
        pre=pres_of(leaves, strlen) + list(pre),
        shape=shape,
        twin_codes=codes,
        timeout=timeout,
    )
