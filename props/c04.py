"""
C04 -- notifications are executed exactly once and never answered.
Dispatch logic decided by CrossHair; pool execution by composition with C09
(the recording pool's contract "every accepted task runs exactly once" is C09).
"""
import itertools

from engine.ch import Runner, traced_functions
from props import dispshapes as D

NOTIFS = {
    "n20": {"jsonrpc": "v2"}, "n10": {"id": "null"}, "nestr20": {"jsonrpc": "v2", "id": "estr"},
    "nestr10": {"id": "estr"}, "nnull20": {"jsonrpc": "v2", "id": "null"},
}
OUTCOMES = {
    "ok": ("m:echo", "args2"), "okkw": ("m:add2", "kwab"), "raise": ("m:boom", "args1"), "unknown": ("m:nosuch", "args1"),
    "arity": ("m:add2", "args1"), "retv": ("m:retv", "args1"), "badconv": ("m:badconv", "args1"),
}
NEIGHBOURS = ("call", "raise", "nd_int", "notif20", "unknown", "noversion")


def notif_entry(form, outcome, p):
    method, params = OUTCOMES[outcome]
    return D.entry(dict(NOTIFS[form], method=method, params=params), p)


def obligations(tier, H):
    thorough = tier == "thorough"
    strlen = 3 if thorough else 2
    obs = []
    n = [0]

    def add(shape, leaves, extra=(), fn="h_dispatch"):
        n[0] += 1
        shape = dict(shape, aspect="C04")
        obs.append(D.make_ob("c04_{0:05d}".format(n[0]), shape, leaves, strlen, extra_leaves=extra, H=H, fn=fn))

    configs = [{}, {"pool": True}, {"custom": "returns"}, {"custom": "raises"}, {"custom": "returns", "pool": True},
               {"custom": "raises", "pool": True}, {"sver": 1.0}, {"sver": 1.0, "pool": True}]
    if thorough:
        configs += [{"server": "pooled", "pool": True}, {"server": "simple"}, {"instance": "dispatching"}, {"jsonclass": False, "pool": True}]
    for cfg in configs:
        for form in NOTIFS:
            for outcome in OUTCOMES:
                extra = [("rv", "int")] if outcome == "retv" else []
                spec, leaves = notif_entry(form, outcome, "")
                add(dict(cfg, request=spec, case=[form, outcome, "alone"]), leaves, extra)
                # at every batch position
                maxn = 3 if thorough else 2
                for k in range(2, maxn + 1):
                    for pos in range(k):
                        for others in itertools.product(NEIGHBOURS, repeat=k - 1):
                            if not thorough and (cfg and others[0] not in ("call", "notif20")):
                                continue
                            if k == 3 and others[0] > others[1]:
                                continue
                            specs, lvs = [], []
                            it = iter(others)
                            for i in range(k):
                                if i == pos:
                                    s, lv = notif_entry(form, outcome, "e{0}".format(i))
                                else:
                                    s, lv = D.batch_entry(next(it), "e{0}".format(i))
                                specs.append(s)
                                lvs += lv
                            add(dict(cfg, request=("list", specs), case=[form, outcome, "batch", k, pos, list(others)]), lvs, extra)
    # client side: _notify returns None and emits the notification form
    for cver in (None, 1.0, 2.0):
        for sver in (2.0, 1.0):
            for method, params in (("echo", "args2"), ("add2", "kwab"), ("boom", "args1"), ("nosuch", "args1"), ("echo", "elist")):
                spec, leaves = D.member_spec("params", params, "p_")
                add({"cver": cver, "sver": sver, "method": method, "params": spec}, leaves, fn="h_client_notify")
    return obs


def run(report, tier):
    import harness.disp as H

    report.explanation = (
        "CrossHair executes the real dispatcher symbolically for every notification form (2.0 without "
        "id, 1.0 with id null, id '') x method outcome x position (alone / each batch position with "
        "neighbours) x {default, custom dispatch returning/raising} x {no pool, recording pool}; ids and "
        "parameters symbolic. Oracle: no reply object for the entry; the callable's log has exactly one "
        "matching entry (after draining the recording pool: each recorded task run once by the harness); "
        "exactly one enqueue per notification. Client side: proxy._notify.m(...) returns None and emits "
        "the notification form of its version. The pool side is decided directly as well: on the "
        "transition system compiled from threadpool.py the request thread enqueues returning/raising "
        "notification tasks and goes on while workers interleave in every way (pool sizes 1-2, 3 in the "
        "thorough tier): no task runs twice, none is stranded, and once the pool is drained each has run "
        "exactly once (see C09 for the full pool property)."
    )
    report.bounds = {"batch": "n <= 2 (quick) / 3 (thorough)", "strings": "len <= 2/3"}
    report.outside = ["real ThreadPool interleavings (C09 decides them on the transition system)", "codec mapping"]
    report.assumptions = ["recording pool stands for a ThreadPool obeying C09", "token codec stub", "logging disabled"]
    report.trusted_base = ["crosshair-tool 0.0.110", "z3 5.1.0", "harness/disp.py oracle"]
    Runner(report, "harness.disp", tier).run(obligations(tier, H))
    # pool part, decided directly on the compiled ThreadPool: the request thread enqueues the
    # notification task(s) and returns at once; workers interleave with it in every way
    from engine.ts import driver

    full = {"name": "all-interleavings", "depth": 16 if tier != "thorough" else 18, "preempt": None, "timeout": 200 if tier != "thorough" else 900}
    jobs = []
    for mx, mn in [(1, 0), (1, 1), (2, 0), (2, 1)] + ([(2, 2), (3, 0)] if tier == "thorough" else []):
        ops = ["start", "enq0", "enq1", "join0"]
        for k in (1, 2, 3):
            spec = {"name": "c04-pool-max{0}min{1}-op{2}".format(mx, mn, k), "max": mx, "min": mn, "tasks": ["ret", "raise"],
                    "clients": [ops], "props": ["exactly_once", "nodeadlock", "drained_once", "bounded"],
                    "join_covers": {"join0": [0, 1]}, "window_at": k, "twin_prog": "progress"}
            jobs.append((spec, full if mx <= 2 else dict(full, depth=14)))
    driver.run_all("props.poolscn", jobs, report)
    report.extra["pool_windows"] = len(jobs)
    spec, leaves = D.batch(["notif20", "notif_raise", "call"])
    report.functions |= traced_functions(H.h_dispatch, {"request": spec, "aspect": "C04", "pool": True}, D.sample_leaves(leaves))
    report.functions |= traced_functions(H.h_client_notify, {"cver": 1.0, "method": "echo", "params": ("list", [("const", 1)])}, {})
