"""
C20 -- serialisation customisation is honoured at every depth.
"""
import itertools

from engine.ch import Runner, traced_functions
from props import dispshapes as D

LEAF_ROT = ("int", "str", "bool", "float")
POSITIONS = ("top", "list", "dict", "field")


def subsets(n, thorough):
    idx = range(n)
    out = [()]
    for k in range(1, n + 1):
        for c in itertools.combinations(idx, k):
            if thorough or k <= 2 or k == n:
                out.append(c)
    return out


def obligations(tier, H):
    from harness import beans

    thorough = tier == "thorough"
    strlen = 3 if thorough else 2
    obs = []
    n = [0]

    def add(shape, leaves, fn, timeout=60):
        n[0] += 1
        obs.append(D.make_ob("c20_{0:05d}".format(n[0]), shape, leaves, strlen, H=H, fn=fn, timeout=timeout))

    classes = ["D2", "D3", "S2", "DD", "SS", "DS", "SD", "DSDS"] if not thorough else list(beans.SPECS)
    spellings = [("_ignore", "default"), ("skip_these", "config"), ("skip_these", "argument"), ("skip_these", "default"),
                 ("_ignore", "config")]
    for cls in classes:
        nf = len(beans.field_names(cls))
        subs = subsets(nf, thorough)
        for pos in POSITIONS:
            for attr_name, via in spellings:
                if not thorough and pos not in ("top", "field") and (attr_name, via) != ("_ignore", "default"):
                    continue
                for own in subs:
                    for arg in subs:
                        if not thorough and own and arg and (own, arg) not in (((0,), (1,)), ((0,), (0,)), ((1,), (0, 1)) if nf > 1 else None):
                            continue
                        for own_mode in (("present",) if own else ("absent", "present")):
                            leaves = [("f{0}".format(i), LEAF_ROT[(i + len(own)) % 4]) for i in range(nf)]
                            if pos != "top":
                                leaves.append(("w", "int"))
                            shape = {"cls": cls, "pos": pos, "own": list(own), "arg": list(arg), "own_mode": own_mode,
                                     "attr_name": attr_name, "via": via}
                            add(shape, leaves, "h_ignore")
    for handled in ("bean", "date", "tuple", "str", "int", "complex"):
        for pos in POSITIONS + ("beanattr",):
            for ret in ("marker", "leaf"):
                leaves = [("v", "int"), ("w", "int"), ("s", "str")]
                add({"handled": handled, "pos": pos, "ret": ret}, leaves, "h_handler")
    # a handler registered after the configuration has been used once
    for handled in ("bean", "date", "tuple", "str", "int", "complex"):
        for pos in ("beanattr", POSITIONS[0], POSITIONS[-1]):
            add({"handled": handled, "pos": pos, "ret": "marker", "late": True}, [("v", "int"), ("w", "int"), ("s", "str")], "h_handler")
    for via in ("default", "config", "argument"):
        for pos in POSITIONS:
            for vt in ("int", "str"):
                add({"via": via, "pos": pos}, [("v", vt), ("w", "int")], "h_names")
    for bad in ("object", "function", "complex", "bytes", "bean", "strict_eq"):
        for pos in POSITIONS:
            for ignore in (False, True):
                add({"bad": bad, "pos": pos, "ignore": ignore}, [("v", "int"), ("w", "str")], "h_unsupported")
    return obs


def run(report, tier):
    import harness.c20 as H

    report.explanation = (
        "CrossHair executes the real jsonclass.dump symbolically: (1) per class shape x position x ignore "
        "list (subsets of the field names given by the object's class attribute, by the ignore= argument, "
        "or both) x spelling of the ignore attribute (default, configured in Config, passed as argument) "
        "with symbolic field values: ignored names absent at every depth, all other fields present and "
        "equal; (2) per handled type (user class, date, tuple, str, int, complex) x position: the "
        "handler's return object appears verbatim (identity), only objects of exactly that type reach it, "
        "subclasses (DD of D2, bool of int) keep built-in handling, a handled type counts as known for "
        "field filtering; (3) the configured serialisation-method name is the one consulted; (4) fields "
        "of unsupported, unhandled types are omitted without failure."
    )
    report.bounds = {"classes": "8 (quick) / 15 (thorough) generated class definitions", "ignore lists": "all subsets of <= 2 names and the full set (quick) / all subsets (thorough)",
                     "positions": "top, list element, dict value, list and dict-in-tuple inside a field of another bean", "strings": "len <= 2/3"}
    report.outside = ["handlers that themselves recurse with modified arguments", "ignore lists holding object references rather than names (documented variant; the oracle only tolerates it)"]
    report.assumptions = ["logging disabled", "class-level ignore lists (instance-level lists would themselves be fields)"]
    report.trusted_base = ["crosshair-tool 0.0.110", "z3 5.1.0", "harness/c20.py oracle", "harness/beans.py class table"]
    Runner(report, "harness.c20", tier).run(obligations(tier, H))
    report.functions |= traced_functions(H.h_ignore, {"cls": "DSDS", "pos": "field", "own": [0], "arg": [1], "own_mode": "present"},
                                         {"f0": 1, "f1": "s", "f2": True, "f3": 1.5, "f4": 2, "w": 0})
    report.functions |= traced_functions(H.h_handler, {"handled": "tuple", "pos": "field"}, {"v": 1, "w": 2, "s": "x"})
