"""
C19 -- transport faults are contained: no foreign results, and the proxy recovers.
"""
from engine.ch import Ob, Runner, traced_functions
from engine.obgen import params_of, ldict

LEVEL = "other"


def obligations(tier, H):
    thorough = tier == "thorough"
    nk = len(H.KINDS)
    obs = []
    n = [0]
    maxn = 3 if thorough else 2
    for unix in (False, True):
        for nf in range(1, maxn + 1):
            # split by the first fault kind so that the obligations spread over the cores
            for first in range(nk):
                for second in (range(nk) if nf == 3 else (None,)):
                    leaves = [("k{0}".format(i), "int") for i in range(nf)] + [("t{0}".format(i), "int") for i in range(nf + 3)]
                    pre = ["0 <= k{0} < {1}".format(i, nk) for i in range(nf)]
                    pre.append("k0 == {0}".format(first))
                    if second is not None:
                        pre.append("k1 == {0}".format(second))
                    toks = ["t{0}".format(i) for i in range(nf + 3)]
                    pre.append("len({{{0}}}) == {1}".format(", ".join(toks), len(toks)) if False else
                               " and ".join("{0} != {1}".format(a, b) for i, a in enumerate(toks) for b in toks[i + 1:]))
                    shape = {"unix": unix, "nfaults": nf, "after": 3, "first": H.KINDS[first]}
                    if second is not None:
                        shape["second"] = H.KINDS[second]
                    n[0] += 1
                    obs.append(Ob("c19_{0:04d}".format(n[0]), params_of(leaves), "H.h_faults({0!r}, {1})".format(shape, ldict(leaves)),
                                  pre=pre, shape=shape, twin_codes=(100,), timeout=300 if nf >= 2 else 120))
    return obs


def run(report, tier):
    import harness.c19 as H

    report.explanation = (
        "CrossHair executes the real client stack -- ServerProxy._request, dumps/loads, check_for_errors, "
        "TransportMixIn.single_request/parse_response, xmlrpc Transport.request with its retry, "
        "make_connection/close, UnixTransport.make_connection and the real http.client HTTPConnection/"
        "HTTPResponse state machine -- over a scripted in-memory socket. The fault kind of every exchange "
        "(13-symbol alphabet: healthy keep-alive, healthy then close, refuse, close before reply, reset on "
        "send, reset on read, 500 with length, 503 without length then close, bodiless status, truncated "
        "body, empty 200, non-JSON 200, 404 with zero length) is a symbolic integer, i.e. the whole fault "
        "sequence is symbolic; every call carries a distinct symbolic token that a healthy peer echoes. "
        "z3 decides: each call returns exactly its own token or raises; TransportError carries the URL "
        "and a status the peer really sent during that call; a read that would block forever is a "
        "failure; once the scripted faults are exhausted at most one further call fails, and after the "
        "first success no later call fails."
    )
    report.bounds = {"fault sequence": "length <= 2 (quick) / 3 (thorough), every position, followed by 3 calls against a healthy peer",
                     "transports": "TCP (Transport) and Unix socket (UnixTransport)", "tokens": "unbounded distinct integers"}
    report.outside = ["kernel behaviour (RST timing, partial writes): the scripted socket raises the documented OSError subclasses at connect, sendall and read",
                      "HTTPS transport", "faults in the middle of the response headers"]
    report.assumptions = ["scripted socket models a blocking stream socket: read on an open silent connection = would block (reported as a failure)",
                          "token codec stub", "uuid stub"]
    report.trusted_base = ["crosshair-tool 0.0.110", "z3 5.1.0", "harness/c19.py oracle and scripted peer", "CPython http.client / xmlrpc.client (executed, not modelled)"]
    Runner(report, "harness.c19", tier).run(obligations(tier, H))
    L = {"k0": 5, "k1": 3}
    L.update({"t%d" % i: i for i in range(5)})
    report.functions |= traced_functions(H.h_faults, {"unix": True, "nfaults": 2, "after": 3}, L)
