"""
C15 -- jsonclass round-trips plain data and is side-effect free.
"""
import itertools

from engine.ch import Ob, Runner, traced_functions
from engine.obgen import params_of, ldict, pres_of

LEAF_T = "Union[None, bool, int, float, str]"
KINDS = ("list", "tuple", "set", "frozenset", "dict", "ndict")
HASHABLE_CHILD = ("tuple", "frozenset")


class Namer(object):
    def __init__(self):
        self.n = 0
        self.leaves = []

    def leaf(self, small=False):
        name = "l{0}".format(self.n)
        self.n += 1
        # at most two five-way union leaves per obligation (5^k type combinations);
        # further leaves rotate through the single primitive types
        wide = sum(1 for _, t in self.leaves if t == LEAF_T)
        typ = LEAF_T if wide < 2 else ("int", "str", "Optional[bool]", "float")[self.n % 4]
        self.leaves.append((name, "bool" if small else typ))
        return ("leaf", name)


def inner_options(max_width, in_set):
    """
    Child options: a leaf, or a container of <= max_width leaves
    """
    opts = [("leaf",)]
    for kind in KINDS:
        if in_set and kind not in HASHABLE_CHILD:
            continue
        for width in range(max_width + 1):
            opts.append((kind, width))
    return opts


def realise(spec, namer, in_set=False):
    """
    spec: ("leaf",) | (kind, width) | (kind, [child specs])
    """
    if spec[0] == "leaf":
        return namer.leaf(small=in_set)
    kind = spec[0]
    child_in_set = in_set or kind in ("set", "frozenset")
    if isinstance(spec[1], int):
        return (kind, [namer.leaf(small=child_in_set) for _ in range(spec[1])])
    return (kind, [realise(child, namer, child_in_set) for child in spec[1]])


def specs(tier):
    thorough = tier == "thorough"
    out = []
    inner_w = 2 if thorough else 1
    for kind in KINDS:
        in_set = kind in ("set", "frozenset")
        opts = inner_options(inner_w, in_set)
        out.append((kind, []))
        for a in opts:
            out.append((kind, [a]))
        for a, b in itertools.product(opts, repeat=2):
            if not thorough and not (b == ("leaf",) or a == b or a == ("leaf",)):
                continue
            out.append((kind, [a, b]))
        if thorough:
            # width 3 with one structured child, and depth 3 chains
            for a in opts:
                out.append((kind, [("leaf",), a, ("leaf",)]))
            for mid in KINDS:
                if in_set and mid not in HASHABLE_CHILD:
                    continue
                for low in KINDS:
                    if (in_set or mid in ("set", "frozenset")) and low not in HASHABLE_CHILD:
                        continue
                    out.append((kind, [(mid, [(low, 1), ("leaf",)])]))
    return out


FAIL_KINDS = (
    "ok", "ok_nested", "badname0", "badname1", "badname2", "badname3", "emptyname", "missing_module",
    "unknown_class", "short", "notlist", "params_int", "ctor_reject", "ctor_reject_kw", "setattr_reject",
    "libclass_attr", "nested_bad", "nested_bad_list",
)


def obligations(tier):
    import harness.c15 as H

    thorough = tier == "thorough"
    strlen = 3 if thorough else 2
    obs = []
    for n, spec in enumerate(specs(tier)):
        namer = Namer()
        shape = realise(spec, namer)
        leaves = namer.leaves
        obs.append(
            Ob(
                "c15_rt_{0:04d}".format(n),
                params_of(leaves),
                "H.h_roundtrip({0!r}, {1})".format(shape, ldict(leaves)),
                pre=pres_of(leaves, strlen),
                shape=shape,
                twin_codes=(100,),
                timeout=60 if not thorough else 200,
            )
        )
    n = 0
    for kind in FAIL_KINDS:
        for pos in ("top", "list", "dict", "attr"):
            for classes in (False, True):
                if classes and not thorough and pos != "attr":
                    continue
                n += 1
                leaves = [("v1", "int"), ("v2", "str")]
                shape = {"kind": kind, "pos": pos, "classes": classes}
                sample = H.h_load_effect(shape, {"v1": 3, "v2": "s"})
                obs.append(
                    Ob(
                        "c15_eff_{0:04d}".format(n),
                        params_of(leaves),
                        "H.h_load_effect({0!r}, {1})".format(shape, ldict(leaves)),
                        pre=pres_of(leaves, strlen),
                        shape=shape,
                        twin_codes=(sample,) if sample >= 100 else (101,),
                        timeout=60,
                    )
                )
    leaves = [("v1", "int"), ("v2", "str")]
    obs.append(Ob("c15_dump_effect", params_of(leaves), "H.h_dump_effect({{}}, {0})".format(ldict(leaves)),
                  pre=pres_of(leaves, strlen), shape="dump of a bean graph leaves the beans untouched"))
    return obs


def run(report, tier):
    report.explanation = (
        "CrossHair executes the real jsonclass.dump/load symbolically, one obligation per container "
        "nesting (list/tuple/set/frozenset/dict with string keys/dict with non-string keys) with every "
        "primitive leaf a symbolic Union[None,bool,int,float,str] (bool inside sets, because hashing "
        "realises a symbolic value); plus one obligation per (failing/ok __jsonclass__ descriptor kind x "
        "position) asserting the argument is left untouched whether load succeeds or fails."
    )
    report.bounds = {
        "nesting": "depth <= 2, outer width <= 2, inner width <= 1 (quick); inner width <= 2, width 3 and depth-3 chains (thorough)",
        "strings": "len <= 2 (quick) / 3 (thorough)",
        "set elements": "bool leaves (finite domain) or tuples/frozensets of them",
    }
    report.outside = [
        "negative zero and float rounding (floats are reals to the solver; no arithmetic touches them)",
        "bytes leaves (excluded by the property)", "nesting beyond the stated depth/width",
        "serialisability by the JSON backend (trusted codec)",
    ]
    report.assumptions = ["CrossHair models of list/dict/set/tuple and isinstance", "logging disabled"]
    report.trusted_base = ["crosshair-tool 0.0.110", "z3 5.1.0", "harness/c15.py + harness/jcommon.py oracle"]
    Runner(report, "harness.c15", tier).run(obligations(tier))
    import harness.c15 as H

    report.functions |= traced_functions(H.h_roundtrip, ("list", [("leaf", "a"), ("dict", [("leaf", "b")])]), {"a": 1, "b": "x"})
    report.functions |= traced_functions(H.h_load_effect, {"kind": "ok_nested", "pos": "attr"}, {"v1": 1, "v2": "x"})
