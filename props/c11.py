"""
C11 -- join() means finished; stop() always terminates; the pool is restartable.
"""
from engine.ts import driver
from props import poolscn

LEVEL = "model_checking"

JOIN_FINDING = "C11-join-early"


def jobs(tier):
    thorough = tier == "thorough"
    full = {"name": "all-interleavings", "depth": 16 if not thorough else 18, "preempt": None, "timeout": 200 if not thorough else 900}
    ctx = {"name": "context-bounded", "depth": 30, "preempt": 2, "timeout": 1500}
    sizes = [(1, 0), (1, 1), (2, 0), (2, 1)] + ([(2, 2)] if thorough else [])
    out = []
    for mx, mn in sizes:
        # join() while a dequeued task is still running (gate-blocked), released by a second client
        clients = [["start", "enq0", "join0", "stop"], ["open0"]]
        for k in (1, 2):
            base = {"max": mx, "min": mn, "tasks": ["gate0"], "clients": clients, "props": ["join", "exactly_once", "nodeadlock"],
                    "join_covers": {"join0": [0]}, "join_finding": JOIN_FINDING, "window_at": k, "twin_prog": "progress", "hold": [1]}
            out.append((dict(base, name="c11-join-running-max{0}min{1}-op{2}".format(mx, mn, k)), full))
        # join() with instantaneous tasks, then stop
        clients = [["start", "enq0", "enq1", "join0", "stop"]]
        for k in (2, 3, 4):
            base = {"max": mx, "min": mn, "tasks": ["ret", "raise"], "clients": clients,
                    "props": ["join", "exactly_once", "nodeadlock", "stopped_clean", "no_run_after_stop"],
                    "join_covers": {"join0": [0, 1]}, "join_finding": JOIN_FINDING, "window_at": k, "twin_prog": "progress"}
            out.append((dict(base, name="c11-join-quick-max{0}min{1}-op{2}".format(mx, mn, k)), full))
        # join(timeout)
        clients = [["start", "enq0", "joint0", "open0", "await0", "stop"]]
        for k in (2, 3):
            base = {"max": mx, "min": mn, "tasks": ["gate0"], "clients": clients, "props": ["exactly_once", "nodeadlock", "results"],
                    "window_at": k, "twin_prog": "progress"}
            out.append((dict(base, name="c11-join-timeout-max{0}min{1}-op{2}".format(mx, mn, k)), full))
        # join(0): returns at once although a task is blocked (a zero time-out is not "no time-out")
        clients = [["start", "enq0", "joinz0", "open0", "await0", "stop"]]
        for k in (2,):
            base = {"max": mx, "min": mn, "tasks": ["gate0"], "clients": clients, "props": ["exactly_once", "nodeadlock", "results"],
                    "window_at": k, "twin_prog": "progress"}
            out.append((dict(base, name="c11-join-zero-max{0}min{1}-op{2}".format(mx, mn, k)), full))
        # stop() with running and queued tasks, concurrent enqueue from another client
        clients = [["start", "enq0", "enq1", "stop"], ["enq2"]]
        for k in (1, 2, 3):
            base = {"max": mx, "min": mn, "tasks": ["ret", "raise", "ret"], "clients": clients, "W": mx + 2,
                    "props": ["exactly_once", "nodeadlock", "stopped_clean", "no_run_after_stop"], "window_at": k, "twin_prog": "progress", "hold": [1]}
            out.append((dict(base, name="c11-stop-busy-max{0}min{1}-op{2}".format(mx, mn, k)), dict(full, depth=full["depth"] - 2, timeout=1800)))  # slowest single query 70-170 s idle
            if False and thorough and k == 3:
                out.append((dict(base, name="c11-stop-busy-max{0}min{1}-op{2}".format(mx, mn, k)), ctx))
        # an enqueue landing while stop() is inside clear() (queue drained, workers joined)
        clients = [["start", "enq0", "stop"], ["enq1"]]
        base = {"max": mx, "min": mn, "tasks": ["ret", "ret"], "clients": clients, "W": mx + 2,
                "props": ["exactly_once", "nodeadlock", "stopped_clean", "no_run_after_stop"], "window_at": 2, "hold": [1],
                "prefix": [("rr_cond", "workers_gone_while_stopping", [0] + list(range(2, 2 + mx + 2)))]}
        out.append((dict(base, name="c11-stop-clear-race-max{0}min{1}".format(mx, mn)), dict(full, depth=full["depth"] + 2)))
        # stop() called while a task is blocked (its worker never consumes a stop marker), then a restart
        busy_stop = "raw:pool_serving = False\nGATE1.set()\npool.stop()\nstop_returned = True\n"
        clients = [["start", "enq0", busy_stop, "start", "enq1", "await1", "stop"], ["raw:GATE1.wait(None)\n", "open0"]]
        for k in (2, 3, 4, 5):
            base = {"max": mx, "min": mn, "tasks": ["gate0", "ret"], "clients": clients, "W": mx + 2, "gates": 2,
                    "props": ["exactly_once", "nodeadlock", "results", "bounded", "no_run_after_stop"], "window_at": k, "twin_prog": "progress"}
            out.append((dict(base, name="c11-restart-after-busy-stop-max{0}min{1}-op{2}".format(mx, mn, k)), dict(full, depth=full["depth"] + 2)))
        # stop() with two live workers: the window starts when the first one has exited
        if mx >= 2:
            clients = [["start", "enq0", "enq1", "await0", "await1", "stop"]]
            base = {"max": mx, "min": 2, "tasks": ["ret", "ret"], "clients": clients, "W": mx + 1,
                    "props": ["exactly_once", "nodeadlock", "stopped_clean", "no_run_after_stop"], "window_at": 5,
                    "prefix": [("rr_cond", "stop_markers_queued", [0] + list(range(1, 1 + mx + 1)))]}
            if mn == 0:
                # (stop() has queued one stop marker per worker; both workers are still alive)
                out.append((dict(base, name="c11-stop-two-workers-max{0}".format(mx)), dict(full, depth=full["depth"] + 6, timeout=1800)))
        # a task that raises a BaseException (SystemExit-like): its worker dies, but the pool's
        # bookkeeping stays consistent: join() and stop() still return
        clients = [["start", "enq0", "join0", "stop"]]
        for k in (1, 2):
            base = {"max": mx, "min": mn, "tasks": ["raise_base"], "clients": clients, "W": mx + 1,
                    "props": ["exactly_once", "nodeadlock", "stopped_clean"], "join_covers": {"join0": []}, "window_at": k, "twin_prog": "progress"}
            out.append((dict(base, name="c11-base-exception-max{0}min{1}-op{2}".format(mx, mn, k)), dict(full, depth=full["depth"] + 2)))
        # stop() while a task is blocked: returns once another client releases it
        clients = [["start", "enq0", "stop"], ["open0"]]
        for k in (1, 2):
            base = {"max": mx, "min": mn, "tasks": ["gate0"], "clients": clients,
                    "props": ["exactly_once", "nodeadlock", "stopped_clean", "no_run_after_stop"], "window_at": k, "twin_prog": "progress", "hold": [1]}
            out.append((dict(base, name="c11-stop-blocked-max{0}min{1}-op{2}".format(mx, mn, k)), full))
        # idempotent start/stop and restart behaving as a fresh pool
        clients = [["start", "start", "enq0", "await0", "stop", "stop", "start", "enq1", "await1", "stop"]]
        for k in range(0, 10):
            if not thorough and (mx, mn) not in ((1, 0), (2, 1)):
                continue
            base = {"max": mx, "min": mn, "tasks": ["ret", "raise"], "clients": clients, "W": mx + 2,
                    "props": ["exactly_once", "results", "nodeadlock", "stopped_clean", "no_run_after_stop", "bounded", "fifo"],
                    "window_at": k, "twin_prog": "progress"}
            out.append((dict(base, name="c11-lifecycle-max{0}min{1}-op{2}".format(mx, mn, k)), full))
    if thorough:
        # the same windows reached through a second history (workers scheduled first in the prefix)
        extra = []
        for spec, regime in out:
            if regime["name"] == "all-interleavings" and spec.get("window_at", 0) >= 1 and not spec.get("hold"):
                extra.append((dict(spec, name=spec["name"] + "-wf", prefix_order="workers_first"), regime))
        out += extra
    return out


def run(report, tier):
    report.explanation = (
        "z3 on the transition system compiled from the current source of ThreadPool (join, stop, clear, "
        "start, __run, __start_thread, enqueue inlined): windows at every operation of lifecycle programs "
        "over {start, stop, enqueue, join, join(timeout), wait} with instantaneous, failing and gate-blocked "
        "tasks and a second client that releases gates or enqueues concurrently. Clauses: join() returned "
        "True only when every task enqueued before it has finished; no state in which a client is inside "
        "stop()/join()/result() and nothing can move (stop() always returns once tasks complete); after "
        "stop() returned no task starts, every worker has terminated and the thread list is empty; repeated "
        "start()/stop() and a restart behave like a fresh pool (exactly-once, own results, order)."
    )
    js = jobs(tier)
    report.bounds = {"pool sizes": sorted({(s["max"], s["min"]) for s, _ in js}), "history length": "<= 10 operations, windows of 16-20 scheduling steps at each",
                     "clients": "1-2", "regimes": sorted({(r["name"], r["depth"], r.get("preempt")) for _, r in js})}
    report.outside = ["join(timeout) returning False exactly when tasks are unfinished at the deadline (time is not modelled: a time-out may fire at any moment)",
                      "livelock under an unfair scheduler", "thread.join(3) wall-clock delays"]
    report.assumptions = ["primitive models of Event/RLock/Thread/Queue/Condition", "time-outs may fire whenever their condition allows"]
    report.trusted_base = ["z3 5.1.0", "engine/ts translator + primitive models"]
    driver.run_all("props.poolscn", js, report)
    report.extra["windows"] = len(js)
