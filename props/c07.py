"""
C07 -- objects survive dump/load wherever they occur, for every supported class shape.
"""
from engine.ch import Runner, traced_functions
from props import dispshapes as D

LEAF_ROT = ("int", "str", "bool", "float")
POSITIONS = ("top", "list", "dict", "beanfield", "listlist")


def patterns(nfields, thorough, ser=False):
    """
    value-kind assignments for the fields of a class.  Supported field values are
    primitives, lists/tuples/dicts, and beans *inside* such containers (a bean
    held directly in a field is omitted by dump by design, see C20); a custom
    serialisation method must itself return plain JSON values.
    """
    pats = [["leaf"] * nfields]
    rot = ["list", "none", "dictv"] if ser else ["list", "beanlist", "tuple", "none", "dictv"]
    pats.append([rot[i % len(rot)] for i in range(nfields)])
    if not ser:
        pats.append(["none"] * nfields)  # every field explicitly None (constructor defaults may differ)
    if thorough:
        pats.append([rot[(i + 2) % len(rot)] for i in range(nfields)])
        if not ser:
            pats.append(["beanlist"] + ["leaf"] * (nfields - 1))
    return pats


def obligations(tier, H):
    from harness import beans

    thorough = tier == "thorough"
    strlen = 3 if thorough else 2
    obs = []
    n = [0]

    def add(shape, leaves, fn="h_roundtrip", timeout=60):
        n[0] += 1
        obs.append(D.make_ob("c07_{0:05d}".format(n[0]), shape, leaves, strlen, H=H, fn=fn, timeout=timeout))

    classes = list(beans.SPECS) + ["SerList", "SerDict"]
    for cls in classes:
        nf = len(beans.field_names(cls))
        for local in (False, True):
            for pi, pat in enumerate(patterns(nf, thorough, cls.startswith('Ser'))):
                for pos in POSITIONS:
                    for rot in ((0, 1) if thorough else (0,)):
                        leaves = [("f{0}".format(i), LEAF_ROT[(i + pi + rot) % 4]) for i in range(nf) if pat[i] != "none"]
                        if pos in ("list", "dict", "beanfield"):
                            leaves.append(("w", "int"))
                        shape = {"cls": cls, "local": local, "pos": pos, "vals": pat}
                        if any(v in ("lbean",) for v in pat):
                            shape["need_local"] = True
                        add(shape, leaves)
                # over RPC: as parameter and as result, both protocol versions
                for direction in ("param", "result"):
                    for cver, sver in ((None, 2.0), (1.0, 2.0), (None, 1.0)):
                        for pos in (("top", "list", "beanfield") if thorough or pi == 0 else ("top",)):
                            leaves = [("f{0}".format(i), LEAF_ROT[(i + pi) % 4]) for i in range(nf) if pat[i] != "none"]
                            if pos in ("list", "dict", "beanfield"):
                                leaves.append(("w", "int"))
                            shape = {"cls": cls, "local": local, "pos": pos, "vals": pat, "dir": direction, "cver": cver, "sver": sver}
                            add(shape, leaves, fn="h_rpc")
    # the same bare name was resolved before under another configuration's class table
    for cls in classes:
        nf = len(beans.field_names(cls))
        pat = patterns(nf, thorough, cls.startswith('Ser'))[0]
        leaves = [("f{0}".format(i), LEAF_ROT[i % 4]) for i in range(nf) if pat[i] != "none"]
        add({"cls": cls, "local": True, "pos": "top", "vals": pat, "prior": True}, leaves)
        add({"cls": cls, "local": True, "pos": "top", "vals": pat, "prior": True, "dir": "result", "cver": None, "sver": 2.0}, leaves, fn="h_rpc")
    # a local bean nested in a module-path bean and vice versa
    for cls, local, inner in (("D1", False, "lbeanlist"), ("S1", True, "beanlist"), ("D1", True, "lbeanlist")):
        for pos in POSITIONS:
            leaves = [("f0", "int")] + ([("w", "int")] if pos in ("list", "dict", "beanfield") else [])
            add({"cls": cls, "local": local, "need_local": True, "pos": pos, "vals": [inner]}, leaves)
    # enumerations and Decimals
    import harness.c07 as HC

    for what, count in (("enum", len(HC.ENUM_MEMBERS)), ("decimal", len(HC.DECIMALS))):
        for index in range(count):
            for pos in POSITIONS:
                for direction in (None, "param"):
                    leaves = [("w", "int")] if pos in ("list", "dict", "beanfield") else []
                    add({"what": what, "index": index, "pos": pos, "dir": direction}, leaves, fn="h_special")
    return obs


def run(report, tier):
    import harness.c07 as H

    report.explanation = (
        "CrossHair executes the real jsonclass.dump/load (and the ServerProxy <-> dispatcher exchange over "
        "the loopback transport and token codec) symbolically, one obligation per generated class "
        "definition (attribute-dict / slotted, 1-5 fields with public, protected and name-mangled names, "
        "inheritance chains of depth 0-3 mixing both kinds, custom serialisation with list or dict "
        "constructor arguments) x {module-path class, locally registered class} x position {top, list, "
        "dict value, list and dict inside a field of another bean, nested lists} x field-value pattern "
        "(symbolic int/str/bool/float leaves, lists, tuples, dicts, nested beans); enum members and "
        "Decimals by table. Oracle: same class, every field equal with identical leaf types."
    )
    report.bounds = {"classes": "17 class definitions x 2 namings", "fields": "<= 5 per object", "strings": "len <= 2/3",
                     "nesting": "object inside <= 2 containers / one enclosing bean"}
    report.outside = ["name-mangled __slots__ entries (documented in the test-suite as not usable)",
                      "enumerations derived from a primitive type (excluded by the property)",
                      "Decimal/enum values beyond the tables (CrossHair replaces decimal.Decimal by its own model)",
                      "real JSON text (token codec)"]
    report.assumptions = ["token codec stub; loopback transport", "logging disabled"]
    report.trusted_base = ["crosshair-tool 0.0.110", "z3 5.1.0", "harness/c07.py oracle", "harness/beans.py class table"]
    Runner(report, "harness.c07", tier).run(obligations(tier, H))
    report.functions |= traced_functions(H.h_rpc, {"cls": "DSDS", "local": True, "pos": "beanfield", "vals": ["leaf"] * 5, "dir": "param"},
                                         {"f0": 1, "f1": "s", "f2": True, "f3": 1.5, "f4": 2, "w": 0})
