"""
C03 -- responses echo the request id; batches answer one-to-one and in order.
"""
import itertools

from engine.ch import Runner, traced_functions
from props import dispshapes as D

ID_KINDS = {
    "int": ("int", None), "float": ("float", None), "str": ("str", None), "bool": ("bool", None),
    "zero": (None, ("const", 0)), "false": (None, ("const", False)), "fzero": (None, ("const", 0.0)),
    "list": ("int", "list"), "dict": ("str", "dict"), "elist": (None, ("const", [])), "edict": (None, ("const", {})),
    "null": (None, ("const", None)), "estr": (None, ("const", "")), "absent": (None, ("absent",)),
}


def id_spec(kind, p):
    ltype, form = ID_KINDS[kind]
    if form is None:
        return ("leaf", p), [(p, ltype)]
    if form == "list":
        return ("list", [("leaf", p)]), [(p, ltype)]
    if form == "dict":
        return ("dict", {"k": ("leaf", p)}), [(p, ltype)]
    return form, []


OUTCOMES = {
    "ok": ("m:echo", "args1"), "raise": ("m:boom", "args1"), "unknown": ("m:nosuch", "args1"),
    "badconv": ("m:badconv", "args1"), "arity": ("m:add2", "args1"), "retfalsy": ("m:retv", "args1"),
}


def single_entry(idkind, outcome, v2, p):
    method, params = OUTCOMES[outcome]
    kinds = {"method": method, "params": params}
    if v2:
        kinds["jsonrpc"] = "v2"
    spec, leaves = D.entry(dict(kinds, id="null"), p)
    ispec, ileaves = id_spec(idkind, p + "rid")
    members = dict(spec[1])
    members["id"] = ispec
    return ("dict", members), leaves + ileaves


def obligations(tier, H):
    thorough = tier == "thorough"
    strlen = 3 if thorough else 2
    obs = []
    n = [0]

    def add(shape, leaves, extra=()):
        n[0] += 1
        shape = dict(shape, aspect="C03")
        obs.append(D.make_ob("c03_{0:05d}".format(n[0]), shape, leaves, strlen, extra_leaves=extra, H=H))

    configs = [{}, {"sver": 1.0}, {"custom": "returns"}, {"custom": "raises"}, {"instance": "dispatching"}]
    if thorough:
        configs += [{"server": "pooled"}, {"jsonclass": False}, {"custom": "raises", "sver": 1.0}, {"pool": True}]
    # ---- single requests: every id kind x outcome x request form x configuration ----
    for cfg in configs:
        for idkind in ID_KINDS:
            for outcome in OUTCOMES:
                if cfg.get("jsonclass") is False and outcome == "badconv":
                    continue  # a failing *conversion* needs class translation on
                for v2 in (True, False):
                    if not v2 and idkind == "absent":
                        continue  # no version marker at all: covered below as invalid
                    spec, leaves = single_entry(idkind, outcome, v2, "")
                    extra = [("rv", "int")] if outcome == "retfalsy" else []
                    sh = dict(cfg, request=spec, case=[idkind, outcome, "2.0" if v2 else "1.0"])
                    if outcome == "retfalsy":
                        sh["ret"] = "zero"
                    add(sh, leaves, extra)
    # ---- invalid single entries keep their id -------------------------------------------
    for idkind in ID_KINDS:
        for bad in ("nomethod", "scalarparams", "emptymethod"):
            kinds = {"jsonrpc": "v2", "method": "m:echo", "params": "args1"}
            if bad == "nomethod":
                kinds.pop("method")
            elif bad == "scalarparams":
                kinds["params"] = "int"
            else:
                kinds["method"] = "estr"
            spec, leaves = D.entry(dict(kinds, id="null"))
            ispec, ileaves = id_spec(idkind, "rid")
            members = dict(spec[1])
            members["id"] = ispec
            add({"request": ("dict", members), "case": [idkind, bad]}, leaves + ileaves)
    # ---- batches -----------------------------------------------------------------------
    names = list(D.BATCH_ENTRIES) + list(D.NONDICT_ENTRIES)
    maxn = 3 if thorough else 2
    for cfg in configs:
        for k in range(1, maxn + 1):
            for combo in itertools.product(names, repeat=k):
                if k == 3 and (cfg or not (combo[0] < combo[1])):
                    continue
                if k == 2 and cfg and not thorough and not (combo[0] <= combo[1]):
                    continue
                if cfg.get("jsonclass") is False and "badconv" in combo:
                    continue
                spec, leaves = D.batch(combo)
                add(dict(cfg, request=spec, batch=list(combo)), leaves)
    # ---- batches whose entries carry the special ids ----------------------------------
    for idkinds in itertools.product(("zero", "false", "fzero", "list", "dict", "estr", "null", "float", "bool", "str"), repeat=2):
        specs, leaves = [], []
        for i, idk in enumerate(idkinds):
            spec, lv = single_entry(idk, "ok" if i == 0 else "raise", True, "e{0}".format(i))
            specs.append(spec)
            leaves += lv
        add({"request": ("list", specs), "batch_ids": list(idkinds)}, leaves)
    return obs


def run(report, tier):
    import harness.disp as H

    report.explanation = (
        "CrossHair executes the real dispatcher symbolically; one obligation per (id kind x outcome x "
        "request form x configuration) for single requests and per batch composition (21 entry kinds, "
        "n <= 2/3) with every id (int, float, str, bool, [x], {k: x}) and every parameter symbolic. The "
        "oracle derives, from the parsed request alone, the list of (entry, id) that must be answered "
        "and compares ids with value-and-type equality, order and count; an all-notification batch must "
        "give the empty body."
    )
    report.bounds = {"batch": "n <= 2 (quick) / 3 (thorough)", "strings": "len <= 2/3",
                     "ids": "scalar leaves symbolic; structured ids of one level"}
    report.outside = ["batches longer than the bound", "client-side position matching (C01/C06)", "codec text<->value mapping"]
    report.assumptions = ["token codec stub", "logging disabled", "exception messages from a table (str.format realises symbolic strings)"]
    report.trusted_base = ["crosshair-tool 0.0.110", "z3 5.1.0", "harness/disp.py oracle"]
    Runner(report, "harness.disp", tier).run(obligations(tier, H))
    spec, leaves = D.batch(["call", "notif10", "raise", "nd_int"])
    report.functions |= traced_functions(H.h_dispatch, {"request": spec, "aspect": "C03"}, D.sample_leaves(leaves))
