"""
C02 -- the server answers every request body with a well-formed reply and never raises.
"""
from engine.ch import Runner, traced_functions
from props import dispshapes as D


def needs(kinds_list):
    extra = []
    for kinds in kinds_list:
        m = kinds.get("method", "") if isinstance(kinds, dict) else ""
        if m == "m:retv" and ("rv", "int") not in extra:
            extra.append(("rv", "int"))
    return extra


def obligations(tier, H):
    thorough = tier == "thorough"
    strlen = 3 if thorough else 2
    obs = []
    n = [0]

    def add(shape, leaves, extra=(), timeout=40):
        n[0] += 1
        shape = dict(shape, aspect="C02")
        obs.append(D.make_ob("c02_{0:05d}".format(n[0]), shape, leaves, strlen, extra_leaves=extra, H=H, timeout=timeout))

    # ---- single objects ---------------------------------------------------------
    skels = D.skeletons_full() if thorough else D.skeletons_pairwise()
    for kinds in skels:
        spec, leaves = D.entry(kinds)
        add({"request": spec, "skeleton": kinds}, leaves, needs([kinds]))
    # the varied base set again under the other configurations
    variants = [
        {"sver": 1.0}, {"jsonclass": False}, {"server": "simple"}, {"server": "pooled"},
        {"sver": 1.0, "jsonclass": False, "server": "simple"},
        {"custom": "returns"}, {"custom": "raises", "exc": "KeyError"}, {"pool": True}, {"instance": "plain"},
        {"instance": "dispatching"},
    ]
    singles = []
    for member in D.MEMBERS:
        for kind in D.MEMBER_KINDS[member]:
            kinds = dict(D.BASE)
            kinds[member] = kind
            singles.append(kinds)
    for var in variants:
        for kinds in singles:
            spec, leaves = D.entry(kinds)
            extra = needs([kinds])
            add(dict(var, request=spec, skeleton=kinds), leaves, extra)
    # ---- return values and exceptions ------------------------------------------
    for ret in ("none", "false", "zero", "fzero", "empty", "elist", "edict", "list", "tuple", "leaf"):
        for rvt in (("int", "str", "float", "bool") if ret in ("leaf", "list") else ("int",)):
            for idk in ("int", "absent"):
                kinds = {"jsonrpc": "v2", "id": idk, "method": "m:retv", "params": "args1"}
                if idk == "absent":
                    kinds = {"id": "int", "method": "m:retv", "params": "args1"}
                spec, leaves = D.entry(kinds)
                add({"request": spec, "skeleton": kinds, "ret": ret}, leaves, [("rv", rvt)])
    for exc in ("ValueError", "RuntimeError", "KeyError", "BoomError", "ZeroDivisionError", "TypeError", "AttributeError"):
        for kinds in ({"jsonrpc": "v2", "id": "int", "method": "m:boom", "params": "args1"},
                      {"id": "str", "method": "m:boom", "params": "kwa"},
                      {"jsonrpc": "v2", "method": "m:boom", "params": "args1"}):
            spec, leaves = D.entry(kinds)
            for msg in range(len(H.MSG_TABLE)):
                add({"request": spec, "skeleton": kinds, "exc": exc, "msg": msg}, leaves)
        for msg in (0, 1, 3):
            add({"request": ("const", None), "parse": "raises", "exc": exc, "msg": msg}, [])
            add({"request": ("const", None), "parse": "raises", "exc": exc, "sver": 1.0, "msg": msg}, [])
    # ---- top-level scalars and empty containers ----------------------------------
    for kind in ("null", "bool", "int", "float", "str", "estr", "elist", "edict"):
        for var in ({}, {"sver": 1.0}):
            spec, leaves = D.kind_spec(kind, "t")
            add(dict(var, request=spec, top=kind), leaves)
    add({"request": ("dict", {"unrelated": ("const", "txt")}), "top": "foreign-object"}, [])
    # ---- arrays -------------------------------------------------------------------
    names = list(D.BATCH_ENTRIES) + list(D.NONDICT_ENTRIES)
    maxn = 3 if thorough else 2
    import itertools

    for k in range(1, maxn + 1):
        for combo in itertools.product(names, repeat=k):
            if k == 3 and not (len(set(combo)) >= 2 and combo[0] <= combo[1]):
                # thorough, n = 3: ordered first pair x any third (keeps it ~ 4k)
                continue
            if k == 2 and not thorough and not (combo[0] <= combo[1] or combo[1].startswith("n")):
                continue
            spec, leaves = D.batch(combo)
            add({"request": spec, "batch": list(combo)}, leaves)
    # ---- class translation enabled: descriptors inside the request ----------------
    M = "harness.jclasses."
    bean = ("dict", {"__jsonclass__": ("const", [M + "Plain", []]), "a": ("leaf", "bi")})
    badname = ("dict", {"__jsonclass__": ("const", ["bad name!", []])})
    missing = ("dict", {"__jsonclass__": ("const", ["no_such_module_xyz.K", []])})
    shortd = ("dict", {"__jsonclass__": ("const", [M + "Plain"])})
    notlist = ("dict", {"__jsonclass__": ("leaf", "bi")})
    for label, desc in (("bean", bean), ("badname", badname), ("missing", missing), ("short", shortd), ("notlist", notlist)):
        for where in ("id", "param", "kwvalue", "top", "method", "batch_entry"):
            if where == "id":
                spec = ("dict", {"jsonrpc": ("const", "2.0"), "id": desc, "method": ("const", "echo"), "params": ("list", [("leaf", "pi")])})
            elif where == "param":
                spec = ("dict", {"jsonrpc": ("const", "2.0"), "id": ("leaf", "xi"), "method": ("const", "echo"), "params": ("list", [desc])})
            elif where == "kwvalue":
                spec = ("dict", {"jsonrpc": ("const", "2.0"), "id": ("leaf", "xi"), "method": ("const", "echo"), "params": ("dict", {"a": desc})})
            elif where == "top":
                spec = desc
            elif where == "method":
                spec = ("dict", {"jsonrpc": ("const", "2.0"), "id": ("leaf", "xi"), "method": desc, "params": ("list", [("leaf", "pi")])})
            else:
                spec = ("list", [desc, ("dict", {"jsonrpc": ("const", "2.0"), "id": ("leaf", "xi"), "method": ("const", "echo")})])
            leaves = [("bi", "int"), ("xi", "int"), ("pi", "int")]
            for var in ({}, {"jsonclass": False}):
                spec2 = spec
                if var and where in ("top", "batch_entry"):
                    # translation off: a version-less object, formatted into the
                    # error message => concrete leaves
                    spec2 = D.concretise(spec) if where == "top" else ("list", [D.concretise(spec[1][0]), spec[1][1]])
                add(dict(var, request=spec2, jsonclass_case=[label, where]), leaves)
    return obs


def run(report, tier):
    import harness.disp as H

    report.explanation = (
        "CrossHair executes the real dispatcher (_marshaled_dispatch -> _unmarshaled_dispatch -> "
        "validate_request -> _marshaled_single_dispatch -> _dispatch -> dump/Fault) symbolically. A body "
        "is represented by what the parser does with it: each obligation fixes the parsed value's shape "
        "(object skeleton with jsonrpc/id/method/params each absent or of every JSON type; arrays of "
        "entries; scalars; parser raising) and leaves every id, version marker, parameter, return value "
        "and exception message symbolic; z3 decides that no exception escapes and every reply object is "
        "well-formed for its version."
    )
    report.bounds = {
        "object skeletons": "quick: all skeletons differing from a valid request in <= 2 members (pairwise), plus single variations under 10 configurations; thorough: full cross product of member kinds",
        "arrays": "n <= 2 (quick) / 3 (thorough) over 21 entry kinds",
        "strings": "len <= 2 / 3", "method names": "table of registered/unknown names (hash lookups realise symbolic strings)",
    }
    report.outside = [
        "which parser outcome a given text produces (the codec is trusted; all outcomes are covered)",
        "do_POST framing (C17)", "recursion-limit behaviour on very deep nesting", "NaN/Infinity literals",
        "callables returning non-JSON values with class translation off (outside the property's domain)",
    ]
    report.assumptions = [
        "token codec stub (parser outcome): jloads returns the shape's value or raises the chosen exception; jdumps raises TypeError on non-JSON values like the real encoder",
        "logging disabled", "recording notification pool (contract = C09)",
    ]
    report.trusted_base = ["crosshair-tool 0.0.110", "z3 5.1.0", "harness/disp.py oracle", "harness/stubs.py"]
    Runner(report, "harness.disp", tier).run(obligations(tier, H))
    spec, leaves = D.batch(["call", "notif10", "raise", "nd_int"])
    report.functions |= traced_functions(H.h_dispatch, {"request": spec, "aspect": "C02"}, dict(D.sample_leaves(leaves), msg="m"))
