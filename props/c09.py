"""
C09 -- the thread pool runs every accepted task exactly once and reports it faithfully.
"""
from engine.ts import driver
from props import poolscn

LEVEL = "model_checking"

PROPS = ["exactly_once", "results", "nodeadlock", "no_run_after_stop", "fifo", "bounded"]


def jobs(tier):
    thorough = tier == "thorough"
    sizes = [(1, 0), (2, 1), (2, 0)] + ([(1, 1), (2, 2), (3, 1)] if thorough else [])
    full = {"name": "all-interleavings", "depth": 16 if not thorough else 18, "preempt": None, "timeout": 150 if not thorough else 900}
    ctx = {"name": "context-bounded", "depth": 30, "preempt": 2, "timeout": 1500}
    programs = [
        ("run", [["start", "enq0", "enq1", "await0", "await1", "stop"]], ["ret", "raise"], range(0, 6)),
        ("prestart", [["enq0", "enq1", "start", "await0", "await1"]], ["ret", "ret"], [2, 3]),
        ("restart", [["start", "enq0", "await0", "stop", "enq1", "start", "await1", "stop"]], ["ret", "raise"], range(3, 8)),
    ]
    out = []
    for mx, mn in sizes:
        for pname, clients, tasks, windows in programs:
            for k in windows:
                nops = len(clients[0])
                base = {"max": mx, "min": mn, "tasks": tasks, "clients": clients, "props": PROPS, "window_at": k}
                if pname == "restart":
                    # worker slots are not recycled: the second start() creates min_threads new threads
                    base["W"] = max(mx + 1, 2 * mn + (1 if mn < mx else 0))
                out.append((dict(base, name="c09-{0}-max{1}min{2}-op{3}".format(pname, mx, mn, k), twin_prog="progress"),
                            full if mx <= 2 else dict(full, depth=14)))
                if False and thorough and mx <= 2 and k % 2 == 0:  # (context-bounded pool windows cost ~400 s each: C16 only)
                    out.append((dict(base, name="c09-{0}-max{1}min{2}-op{3}".format(pname, mx, mn, k), twin_prog="progress"), ctx))
        # a worker at its retirement decision / idle time-out while the client enqueues again
        if mn < mx:
            ops = ["start", "enq0", "await0", "enq1", "await1"]
            base = {"max": mx, "min": mn, "tasks": ["ret", "ret"], "clients": [ops], "props": PROPS, "window_at": 3, "twin_prog": "progress"}
            out.append((dict(base, name="c09-retire-max{0}min{1}-aftertask".format(mx, mn)), dict(full, depth=full["depth"] + 2)))
            for w in range(mx):
                out.append((dict(base, name="c09-retire-max{0}min{1}-idle{2}".format(mx, mn, w),
                                 prefix=[("until", 1 + w, {"label": "Queue.get"})]), dict(full, depth=full["depth"] + 2)))
        # a failing task whose callable has no __name__ (functools.partial): later tasks still run
        ops = ["start", "enq0", "enq1", "await1", "stop"]
        for k in (1, 2, 3):
            base = {"max": mx, "min": mn, "tasks": ["raise_noname", "ret"], "clients": [ops],
                    "props": ["exactly_once", "nodeadlock", "bounded", "results"], "window_at": k, "twin_prog": "progress"}
            out.append((dict(base, name="c09-noname-max{0}min{1}-op{2}".format(mx, mn, k)), full))
        # start() racing with an enqueue from another thread; nobody enqueues afterwards
        base = {"max": mx, "min": mn, "tasks": ["ret"], "clients": [["start"], ["enq0", "await0"]],
                "props": ["exactly_once", "results", "bounded", "nodeadlock"], "window_at": 0, "hold": [1], "twin_prog": "progress"}
        out.append((dict(base, name="c09-start-race-max{0}min{1}".format(mx, mn)), dict(full, depth=full["depth"] + 2)))
        # one transient Thread.start() failure (at most one attempt fails, at any point of the window):
        # the next enqueue must bring a worker up and both tasks run
        ops = ["start", "enq0", "enq1", "await0", "await1"]
        for k in (0, 1, 2):
            base = {"max": mx, "min": mn, "tasks": ["ret", "ret"], "clients": [ops], "W": mx + 2, "start_failure": 1,
                    "props": ["exactly_once", "results", "bounded", "nodeadlock"], "window_at": k, "twin_prog": "progress"}
            out.append((dict(base, name="c09-startfail1-max{0}min{1}-op{2}".format(mx, mn, k)), full))
        # two enqueuing clients, from the constructed pool
        base = {"max": mx, "min": mn, "tasks": ["ret", "ret"], "clients": [["start", "enq0", "await0"], ["enq1", "await1"]],
                "props": ["exactly_once", "results", "bounded", "nodeadlock"], "window_at": 0, "twin_prog": "progress", "hold": [1]}
        out.append((dict(base, name="c09-twoclients-max{0}min{1}".format(mx, mn)), dict(full, depth=14 if not thorough else 18)))
    if thorough:
        # the same windows reached through a second history (workers scheduled first in the prefix)
        extra = []
        for spec, regime in out:
            if regime["name"] == "all-interleavings" and spec.get("window_at", 0) >= 1 and not spec.get("hold"):
                extra.append((dict(spec, name=spec["name"] + "-wf", prefix_order="workers_first"), regime))
        out += extra
    return out


def run(report, tier):
    report.explanation = (
        "The transition system is compiled from the current AST of ThreadPool, FutureResult and EventData "
        "(one step per traced statement; enqueue/start/stop/clear/join/__start_thread/__run and the future "
        "methods inlined; threading.Event/RLock/Thread and queue.Queue as primitives with time-outs that "
        "may fire whenever their condition allows; Lipton reduction fuses thread-local and lock-protected "
        "steps). Client programs over {start, enqueue (returning / raising tasks), wait for result, stop, "
        "restart} are cut into windows: a deterministic prefix brings the real model to the start of the "
        "k-th operation, then z3 decides every clause for ALL interleavings of client and workers for the "
        "stated number of scheduling steps, and deeper for all interleavings with a bounded number of "
        "preemptions. Clauses: no task executed twice, only enqueued tasks executed, result() delivers "
        "the task's own object/exception after exactly one execution, done() afterwards, no state in "
        "which a client waits and nothing can move (a stranded task or a stop() that cannot return), no "
        "task starts after stop() returned, submission order with a single worker, counters in range. "
        "Completion twins and all counterexamples are replayed on the real pool (real threads, real "
        "primitives) under the settrace scheduler."
    )
    js = jobs(tier)
    report.bounds = {"pool sizes": sorted({(s["max"], s["min"]) for s, _ in js}), "tasks": "2 per program", "clients": "1-2",
                     "regimes": sorted({(r["name"], r["depth"], r.get("preempt")) for _, r in js}),
                     "granularity": "statement; thread-local and lock-protected steps fused"}
    report.outside = ["real GIL/OS scheduling (not sampled)", "queue_size > 0", "more than 2 tasks / 2 clients / 3 workers per window",
                      "window start states other than those reached by the round-robin prefix", "daemon-thread teardown at interpreter exit"]
    report.assumptions = ["primitive models of Event/RLock/Thread/Queue (validated by replay of every witness)",
                          "for-loops over the thread list iterate over a snapshot taken at loop entry",
                          "Thread.start() failure only in the scenarios that enable it (startfail1: at most one failing attempt)"]
    report.trusted_base = ["z3 5.1.0", "engine/ts translator + primitive models"]
    driver.run_all("props.poolscn", js, report)
    report.extra["windows"] = len(js)
