"""
C05 -- failures get the standard error codes and rejected requests run nothing.
CrossHair per failure class (server and client side) + z3 lemmas for the
underscore-segment rule of dotted names.
"""
import itertools

from engine.ch import Runner, traced_functions
from props import dispshapes as D

INST_NAMES = ("pub", "nested.deep", "_priv", "nested._hid", "_private_obj.deep", "__dunder__", "missing",
              "nested.missing", "pub.__call__", "nested.__class__", "", ".pub", "pub.", "nested..deep",
              "__init__", "_reg", "nested.deep.__self__._hid", "pub.im_func", "éé", "nosuch")
FUNC_NAMES = ("echo", "add2", "wrapped", "opt", "boom", "retv", "keys", "a.b", "méthode x", "nosuch", "a", "b", "a.b.c", "Echo",
              "echo ", "_dispatch", "register_function", "funcs", "__class__", "system.listMethods")
PARAM_KINDS = ("elist", "args1", "args2", "args3", "edict", "kwa", "kwab", "kwx", "nested")
EXCS = ("ValueError", "RuntimeError", "KeyError", "BoomError", "ZeroDivisionError", "AttributeError")


def obligations(tier, H):
    thorough = tier == "thorough"
    strlen = 3 if thorough else 2
    obs = []
    n = [0]

    def add(shape, leaves, extra=(), fn="h_dispatch"):
        n[0] += 1
        shape = dict(shape, aspect="C05")
        obs.append(D.make_ob("c05_{0:05d}".format(n[0]), shape, leaves, strlen, extra_leaves=extra, H=H, fn=fn))

    forms = [{"jsonrpc": "v2", "id": "int"}, {"id": "str"}]
    configs = [{}, {"sver": 1.0}]
    if thorough:
        configs += [{"server": "simple"}, {"server": "pooled"}, {"jsonclass": False}]
    # ---- parser / translator rejects ----------------------------------------------
    for cfg in configs:
        for inst in (None, "plain", "dispatching"):
            for exc in EXCS + ("TypeError",):
                for msg in (0, 1, 3):
                    add(dict(cfg, request=("const", None), parse="raises", exc=exc, msg=msg, instance=inst), [])
    # ---- bodies that only a lenient pre-processing of the text would make acceptable ----
    for cfg in configs:
        for inst in (None, "plain"):
            for form in forms:
                for pad in range(len(H.PADS)):
                    spec, leaves = D.entry(dict(form, method="m:echo", params="args1"))
                    add(dict(cfg, request=spec, parse="padded", pad=pad, instance=inst), leaves)
            for pad in range(len(H.BLANKS)):
                add(dict(cfg, request=("const", None), parse="blank", pad=pad, instance=inst), [])
    # ---- structurally invalid objects (all skeletons that are invalid) ---------------
    skels = D.skeletons_full() if thorough else D.skeletons_pairwise()
    extra_pairs = [(k, inst) for k in D.skeletons_pairwise() for inst in ("plain", "dispatching")] if thorough else []
    for kinds, inst in extra_pairs:
        valid_method = kinds.get("method", "absent").startswith("m:")
        valid_params = kinds.get("params", "absent") in ("absent", "list", "dict", "elist", "edict", "args1", "args2", "args3", "kwab", "kwa", "kwx", "nested")
        has_version = kinds.get("jsonrpc", "absent") != "absent" or kinds.get("id", "absent") != "absent"
        if valid_method and valid_params and has_version:
            continue
        spec, leaves = D.entry(kinds)
        add({"request": spec, "skeleton": kinds, "instance": inst}, leaves)
    for kinds in skels:
        valid_method = kinds.get("method", "absent").startswith("m:")
        valid_params = kinds.get("params", "absent") in ("absent", "list", "dict", "elist", "edict", "args1", "args2", "args3", "kwab", "kwa", "kwx", "nested")
        has_version = kinds.get("jsonrpc", "absent") != "absent" or kinds.get("id", "absent") != "absent"
        if valid_method and valid_params and has_version:
            continue
        for inst in ((None, "plain", "dispatching") if valid_method else (None, "dispatching") if not thorough else (None,)):
            spec, leaves = D.entry(kinds)
            add({"request": spec, "skeleton": kinds, "instance": inst}, leaves)
    # ---- method lookup: function registry and instances -------------------------------
    for cfg in configs:
        for form in forms:
            for name in FUNC_NAMES:
                for pk in (PARAM_KINDS if name in ("add2", "wrapped", "opt", "echo", "nosuch") else ("args1", "kwa")):
                    spec, leaves = D.entry(dict(form, method="m:" + name, params=pk))
                    extra = [("rv", "int")] if name == "retv" else []
                    add(dict(cfg, request=spec, case=["func", name, pk]), leaves, extra)
            for name in INST_NAMES:
                for pk in ("args1", "args2", "elist", "kwx", "kwa"):
                    spec, leaves = D.entry(dict(form, method="m:" + name, params=pk))
                    add(dict(cfg, request=spec, instance="plain", case=["inst", name, pk]), leaves)
            for name in ("known", "other", "_priv", "echo"):
                spec, leaves = D.entry(dict(form, method="m:" + name, params="args1"))
                add(dict(cfg, request=spec, instance="dispatching", case=["dispinst", name]), leaves)
    # ---- exceptions raised by the method: -32603 naming type and text -------------------
    for cfg in configs:
        for form in forms:
            for exc in EXCS:
                for msg in range(len(H.MSG_TABLE)):
                    for pk in ("args1", "kwa"):
                        spec, leaves = D.entry(dict(form, method="m:boom", params=pk))
                        add(dict(cfg, request=spec, exc=exc, msg=msg, case=["raise", exc, msg]), leaves)
    # ---- known finding: a TypeError raised by the method body is reported as -32602 ----
    # (carved out of the table above: EXCS has no TypeError; asserted here separately)
    for form in forms:
        for msg in (0, 1):
            spec, leaves = D.entry(dict(form, method="m:boom", params="args1"))
            shape = dict(request=spec, exc="TypeError", msg=msg, case=["raise", "TypeError", msg], aspect="C05")
            n[0] += 1
            ob = D.make_ob("c05_{0:05d}_finding".format(n[0]), shape, leaves, strlen, H=H)
            ob.kind = "finding"
            ob.finding = "C05-typeerror-in-method"
            obs.append(ob)
    # ---- in batches: codes per entry, nothing run for rejected entries ----------------
    names = ("call", "raise", "unknown", "arity", "nomethod", "noversion", "scalarparams", "nd_int", "nd_str", "notif_unknown")
    for combo in itertools.product(names, repeat=2):
        spec, leaves = D.batch(combo)
        add({"request": spec, "batch": list(combo)}, leaves)
    # ---- client side -----------------------------------------------------------------
    for cver in (None, 1.0):
        for sver in (2.0, 1.0):
            base = {"cver": cver, "sver": sver}
            for name in ("echo", "nosuch", "add2", "boom", "keys"):
                for pk in ("args1", "args2", "kwa", "kwab"):
                    spec, leaves = D.member_spec("params", pk, "p_")
                    add(dict(base, method=name, params=spec), leaves, fn="h_client")
            for name in ("pub", "_priv", "nested._hid", "nested.deep", "missing"):
                spec, leaves = D.member_spec("params", "args1", "p_")
                add(dict(base, method=name, params=spec, instance="plain"), leaves, fn="h_client")
            spec, leaves = D.member_spec("params", "args1", "p_")
            add(dict(base, method="echo", params=spec, parse="raises"), leaves, fn="h_client")
            for exc in EXCS:
                add(dict(base, method="boom", params=spec, exc=exc, msg=3), leaves, fn="h_client")
    return obs


def run(report, tier):
    import harness.disp as H

    report.explanation = (
        "CrossHair executes the real dispatcher (and, for the client clause, ServerProxy._request over a "
        "loopback transport) symbolically, one obligation per failure class instance: parser/translator "
        "raising (7 exception classes), every structurally invalid object skeleton, method names from "
        "tables against a function registry, an instance with public/private/nested attributes and an "
        "instance with its own _dispatch, every arity/keyword mismatch, methods raising 6 exception "
        "classes x 7 message texts; ids and parameters symbolic. Oracle: error.code, no callable invoked "
        "for -32700/-32600/-32601 (log comparison), -32603 message contains type name and str(ex), "
        "client raises plain ProtocolError((code, str))."
    )
    report.bounds = {"method names": "tables of 19 function-registry names and 20 instance names (incl. dotted, underscore, empty-segment, non-ASCII)",
                     "messages": "7 texts incl. braces, quotes, %s, empty", "strings": "len <= 2/3"}
    report.outside = ["free symbolic method names (hash lookups realise them); the underscore rule for all strings is the z3 lemma",
                      "exceptions with notes / SyntaxError rendering (excluded by the property)",
                      "the text->parser-outcome mapping"]
    report.assumptions = ["token codec stub / parser-outcome stub", "logging disabled"]
    report.trusted_base = ["crosshair-tool 0.0.110", "z3 5.1.0", "harness/disp.py oracle"]
    Runner(report, "harness.disp", tier).run(obligations(tier, H))
    spec, leaves = D.batch(["call", "raise", "unknown", "arity"])
    report.functions |= traced_functions(H.h_dispatch, {"request": spec, "aspect": "C05", "instance": "plain"}, D.sample_leaves(leaves))
    report.functions |= traced_functions(H.h_client, {"method": "boom", "params": ("list", [("const", 1)])}, {})
