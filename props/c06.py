"""
C06 -- the client never swallows or mistypes a server-reported error.
Decided by CrossHair per reply shape (leaves symbolic) + a z3 interval lemma.
"""
import itertools

from engine.ch import Ob, Runner

LEAF_TYPES = {
    "int": "int",
    "float": "float",
    "str": "str",
    "bool": "bool",
}


def params_of(leaves):
    return ", ".join("{0}: {1}".format(n, t) for n, t in leaves)


def ldict(leaves):
    return "{" + ", ".join("'{0}': {0}".format(n) for n, _ in leaves) + "}"


def pres_of(leaves, strlen):
    pre = []
    for n, t in leaves:
        if t == "str":
            pre.append("len({0}) <= {1}".format(n, strlen))
        if t == "float":
            pre.append("{0} == {0} and {0} - {0} == 0".format(n))
    return pre


def shapes(tier):
    thorough = tier == "thorough"
    strlen = 3 if thorough else 2
    out = []
    envelopes = (1, 2)
    # --- error objects with a code --------------------------------------------
    others = ("message", "trace", "data")
    for k in range(4):
        for extra in itertools.combinations(others, k):
            members = ("code",) + extra
            for ckind in ("int", "float", "str", "bool", "none"):
                for env in envelopes:
                    results = ("none",) if env == 1 else ("absent",)
                    if thorough:
                        results = ("none", "value") if env == 1 else ("absent", "none", "value")
                    for res in results:
                        leaves = []
                        if ckind != "none":
                            leaves.append(("code", LEAF_TYPES[ckind]))
                        for m in extra:
                            leaves.append((m, "int" if m == "data" else "str"))
                        if res == "value":
                            leaves.append(("res", "int"))
                        shape = {
                            "error": "obj",
                            "members": list(members),
                            "code": ckind,
                            "envelope": env,
                            "result": res,
                        }
                        codes = (100, 101) if ckind in ("int", "float") else (100,)
                        out.append((shape, leaves, codes))
    # --- error objects without a code -----------------------------------------
    for k in (2, 3):
        for members in itertools.combinations(others, k):
            for env in envelopes:
                leaves = [(m, "int" if m == "data" else "str") for m in members]
                shape = {
                    "error": "obj",
                    "members": list(members),
                    "code": "absent",
                    "envelope": env,
                    "result": "none" if env == 1 else "absent",
                }
                out.append((shape, leaves, (102,)))
    for key in ("reason", "message", "trace", "data"):
        for vt in ("str", "int"):
            for env in envelopes:
                shape = {
                    "error": "single",
                    "key": key,
                    "envelope": env,
                    "result": "none" if env == 1 else "absent",
                }
                out.append((dict(shape, val=vt), [("val", vt)], (102,)))
    # --- non-object errors -----------------------------------------------------
    for kind, leaves, pre in (
        ("str", [("err_s", "str")], ["len(err_s) >= 1", "len(err_s) <= 6"]),
        ("int", [("err_i", "int")], ["err_i != 0"]),
        ("float", [("err_f", "float")], ["err_f != 0"]),
        ("list", [("err_s", "str")], ["len(err_s) <= 6"]),
        ("true", [], []),
    ):
        for env in envelopes:
            shape = {
                "error": kind,
                "envelope": env,
                "result": "none" if env == 1 else "absent",
                "_pre": pre,
            }
            out.append((shape, leaves, (102,)))
    return out, strlen


def obligations(tier):
    thorough = tier == "thorough"
    obs = []
    shape_list, strlen = shapes(tier)
    n = 0
    for entry in ("check", "request", "notify", "multi_getitem", "multi_iter"):
        for shape, leaves, codes in shape_list:
            positions = [(1, 0)]
            if entry.startswith("multi"):
                if shape["envelope"] == 1:
                    continue  # batches are 2.0 only
                positions = [(2, 0), (2, 1)] if not thorough else [(1, 0), (2, 0), (2, 1), (3, 0), (3, 1), (3, 2)]
            for npos, pos in positions:
                sh = dict(shape)
                extra_pre = sh.pop("_pre", [])
                sh["entry"] = entry
                if entry.startswith("multi"):
                    sh["n"], sh["pos"] = npos, pos
                n += 1
                pre = pres_of(leaves, strlen) + list(extra_pre)
                pre = [p for p in pre if not (p.startswith("len(err_s) <=") and p != "len(err_s) <= 6")]
                obs.append(
                    Ob(
                        "c06_err_{0:04d}".format(n),
                        params_of(leaves),
                        "H.h_error({0!r}, {1})".format(sh, ldict(leaves)),
                        pre=dedup(pre),
                        shape=sh,
                        twin_codes=codes,
                        timeout=40 if thorough else 25,
                    )
                )
    # --- replies without error ---------------------------------------------------
    res_kinds = [
        ("none", None), ("false", None), ("zero", None), ("fzero", None), ("empty", None),
        ("elist", None), ("edict", None), ("int", "int"), ("str", "str"), ("float", "float"),
        ("bool", "bool"), ("list", "int"), ("dict", "str"),
    ]
    for entry in ("check", "request", "notify", "multi_getitem", "multi_iter"):
        for res, ltype in res_kinds:
            for env in (1, 2):
                for errmember in ("null", "absent"):
                    if entry.startswith("multi") and env == 1:
                        continue
                    if not thorough and entry != "check" and errmember == "absent" and env == 1:
                        continue
                    positions = [(1, 0)]
                    if entry.startswith("multi"):
                        positions = [(2, 0), (2, 1)] if not thorough else [(1, 0), (2, 1), (3, 0), (3, 1), (3, 2)]
                    for npos, pos in positions:
                        leaves = [("res", ltype)] if ltype else []
                        sh = {"entry": entry, "res": res, "envelope": env, "errmember": errmember}
                        if entry.startswith("multi"):
                            sh["n"], sh["pos"] = npos, pos
                        n += 1
                        obs.append(
                            Ob(
                                "c06_res_{0:04d}".format(n),
                                params_of(leaves),
                                "H.h_result({0!r}, {1})".format(sh, ldict(leaves)),
                                pre=pres_of(leaves, strlen),
                                shape=sh,
                                twin_codes=(103,),
                                timeout=25,
                            )
                        )
    return obs


def dedup(seq):
    out = []
    for item in seq:
        if item not in out:
            out.append(item)
    return out


def run(report, tier):
    report.explanation = (
        "CrossHair (symbolic execution of the real check_for_errors / ServerProxy / MultiCall "
        "code, z3 underneath) decides one obligation per reply shape: error member kind x members "
        "present x code type x envelope x result presence x call site x batch position; the code, "
        "message, trace, data, result and raw error values are symbolic. Each confirmed obligation "
        "has reachability twins (one per oracle branch) that must be refuted and replayed natively."
    )
    report.bounds = {
        "strings": "len <= 2 (quick) / 3 (thorough); raw string/list errors len <= 6",
        "ints/floats": "unbounded ints, finite floats (reals in CrossHair)",
        "batch": "n <= 2 (quick) / 3 (thorough), every position",
    }
    report.outside = [
        "structured (list/dict) message or data values deeper than one level",
        "replies that are not dicts (TypeError is the documented behaviour)",
        "the text->value mapping of the JSON codec (token codec stub)",
    ]
    report.assumptions = [
        "token codec stub for jsonrpc.jdumps/jloads (contract of a JSON codec on JSON data)",
        "canned transport returns the prepared reply text",
        "CrossHair's models of int/float/str/dict operations are faithful (every counterexample is replayed natively; confirmations rest on the models)",
    ]
    report.trusted_base = ["crosshair-tool 0.0.110", "z3 5.1.0", "harness/c06.py oracle", "harness/stubs.py"]
    obs = obligations(tier)
    runner = Runner(report, "harness.c06", tier)
    runner.run(obs)
    import harness.c06 as H
    from engine.ch import traced_functions

    for sh in (
        {"error": "obj", "members": ["code", "message"], "code": "int", "envelope": 2, "result": "absent", "entry": "request"},
        {"error": "obj", "members": ["code", "message"], "code": "int", "envelope": 2, "result": "absent", "entry": "multi_iter", "n": 2, "pos": 1},
        {"error": "obj", "members": ["code", "message"], "code": "int", "envelope": 2, "result": "absent", "entry": "notify"},
    ):
        report.functions |= traced_functions(H.h_error, sh, {"code": -5, "message": "m"})
