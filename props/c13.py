"""
C13 -- replies depend only on the request: stateless per-request version adaptation.
"""
import itertools

from engine.ch import Runner, traced_functions
from engine.ch import Ob
from engine.obgen import params_of, ldict, pres_of
from props import dispshapes as D

REQS = {
    "call20": {"jsonrpc": "v2", "id": "int", "method": "m:echo", "params": "args1"},
    "call10": {"id": "int", "method": "m:echo", "params": "args1"},
    "call10s": {"id": "str", "method": "m:echo", "params": "kwa"},
    "raise20": {"jsonrpc": "v2", "id": "int", "method": "m:boom", "params": "args1"},
    "raise10": {"id": "int", "method": "m:boom", "params": "args1"},
    "unknown10": {"id": "int", "method": "m:nosuch", "params": "args1"},
    "unknown20": {"jsonrpc": "v2", "id": "int", "method": "m:nosuch", "params": "args1"},
    "arity10": {"id": "int", "method": "m:add2", "params": "args1"},
    "arity20": {"jsonrpc": "v2", "id": "int", "method": "m:add2", "params": "args1"},
    "badconv10": {"id": "int", "method": "m:badconv", "params": "args1"},
    "badconv20": {"jsonrpc": "v2", "id": "int", "method": "m:badconv", "params": "args1"},
    "notif20": {"jsonrpc": "v2", "method": "m:echo", "params": "args1"},
    "notif10": {"id": "null", "method": "m:echo", "params": "args1"},
    "invalid20": {"jsonrpc": "v2", "id": "int", "params": "args1"},
    "invalid10": {"id": "int", "method": "m:echo", "params": "int"},
    # the member is present (whatever its value): the server's own form
    "marker_null20": {"jsonrpc": "null", "id": "int", "method": "m:echo", "params": "args1"},
    "marker_estr20": {"jsonrpc": "estr", "id": "int", "method": "m:boom", "params": "args1"},
    "marker_zero20": {"jsonrpc": "zero", "id": "int", "method": "m:echo", "params": "args1"},
    "marker_false20": {"jsonrpc": "false", "id": "str", "method": "m:nosuch", "params": "args1"},
    # parameters translated into objects of an importable class: nothing may be cached in the Config
    "bean20": {"jsonrpc": "v2", "id": "int", "method": "m:echo", "params": "bean"},
    "bean10": {"id": "int", "method": "m:echo", "params": "bean"},
    # the method returns (does not raise) a Fault it built itself with the default configuration
    "retfault20": {"jsonrpc": "v2", "id": "int", "method": "m:retfault", "params": "args1"},
    "retfault10": {"id": "int", "method": "m:retfault", "params": "args1"},
}


def req(name, p):
    if name.startswith("batch:"):
        return D.batch(name[6:].split("+")) if False else batch_of(name[6:].split("+"), p)
    if name.startswith("nd_"):
        return D.kind_spec(D.NONDICT_ENTRIES[name], p)
    return D.entry(REQS[name], p)


def batch_of(names, p):
    specs, leaves = [], []
    for i, name in enumerate(names):
        s, lv = D.entry(REQS[name], "{0}b{1}".format(p, i))
        specs.append(s)
        leaves += lv
    return ("list", specs), leaves


def obligations(tier, H):
    thorough = tier == "thorough"
    strlen = 3 if thorough else 2
    obs = []
    n = [0]

    def add(shape, leaves, extra=(), fn="h_dispatch"):
        n[0] += 1
        shape = dict(shape, aspect="C13")
        obs.append(D.make_ob("c13_{0:05d}".format(n[0]), shape, leaves, strlen, extra_leaves=extra, H=H, fn=fn))

    configs = [{"sver": 2.0}, {"sver": 1.0}, {"sver": 2.0, "custom": "returns"}, {"sver": 2.0, "custom": "raises"},
               {"sver": 1.0, "custom": "raises"}, {"sver": 2.0, "pool": True}, {"sver": 2.0, "instance": "dispatching"},
               {"sver": 2.0, "jsonclass": False}, {"sver": 2.0, "server": "simple"}, {"sver": 2.0, "server": "pooled"}]
    # ---- (a) form of each reply + (c) no writes --------------------------------------
    for cfg in configs:
        for name in REQS:
            if cfg.get("jsonclass") is False and ("badconv" in name or "bean" in name):
                continue  # a failing *conversion* / bean parameters need class translation on
            spec, leaves = req(name, "")
            add(dict(cfg, request=spec, case=[name]), leaves)
        for combo in itertools.product(sorted(REQS), repeat=2):
            special = [c for c in combo if c.startswith("marker_") or c.startswith("bean") or c.startswith("retfault")]
            if special and (len(special) == 2 or not any(c in ("call20", "call10") for c in combo)):
                continue  # the added request kinds are paired with plain calls only
            if cfg.get("jsonclass") is False and ("badconv" in "".join(combo) or "bean" in "".join(combo)):
                continue
            if not thorough and cfg != configs[0] and cfg != configs[1] and combo[0][-2:] == combo[1][-2:]:
                continue
            spec, leaves = batch_of(combo, "")
            add(dict(cfg, request=spec, case=list(combo)), leaves)
    for cfg in configs[:2]:
        for name in D.NONDICT_ENTRIES:
            spec, leaves = req(name, "t")
            add(dict(cfg, request=spec, case=[name]), leaves)
        for exc in ("ValueError", "KeyError"):
            add(dict(cfg, request=("const", None), parse="raises", exc=exc), [])
    # ---- (b) history independence -------------------------------------------------------
    hist = sorted(REQS) + ["batch:call10+call20", "batch:notif20+raise10", "nd_int"]
    for cfg in (configs if thorough else configs[:4]):
        for a, b in itertools.product(hist, repeat=2):
            special = [c for c in (a, b) if c.startswith("marker_") or c.startswith("bean") or c.startswith("retfault")]
            if special and (len(special) == 2 or not any(c in ("call20", "call10") for c in (a, b))):
                continue
            if not thorough and cfg != configs[0] and not (a.endswith("10") or a.startswith("batch")):
                continue
            if cfg.get("jsonclass") is False and ("badconv" in a + b or "bean" in a + b):
                continue
            s1, l1 = req(a, "r1")
            s2, l2 = req(b, "r2")
            add(dict(cfg, r1=s1, r2=s2, case=[a, b]), l1 + l2, fn="h_history")
    # ---- (d) Config.copy -----------------------------------------------------------------
    import harness.disp as HD

    whats = list(HD.COPY_FIELDS) + ["classes_add", "classes_set", "classes_del", "handlers_set", "handlers_replace", "handlers_del"]
    for side in ("copy", "original"):
        for what in whats:
            for vt in (("float", "int") if what == "version" else ("bool",) if what == "use_jsonclass" else ("str", "int")):
                for sver in (1.0, 2.0):
                    add({"side": side, "what": what, "sver": sver}, [("val", vt)], fn="h_copy")
    return obs


def run(report, tier):
    import harness.disp as H

    report.explanation = (
        "CrossHair executes the real dispatcher symbolically: (a) per request kind (1.0/2.0 call, "
        "failing, returning a Fault of its own, unknown, bad arity, failing conversion, notification, invalid) and per pair of them in "
        "one batch, x server version x dispatch configuration, the reply form must be 1.0 for entries "
        "without 'jsonrpc' and the server's own otherwise; (b) for every ordered pair (r1, r2) the reply to "
        "r2 after r1 on one dispatcher equals the reply to r2 on a fresh one; (c) after every request the "
        "server Config, config.DEFAULT, the dispatcher's attributes (identity) and its function table are "
        "unchanged -- requests share only state nobody writes, which also gives schedule independence; "
        "(d) Config.copy(): for each field/table mutation on either side with a symbolic value the other "
        "side's field-by-field snapshot is unchanged and no table is shared."
    )
    report.bounds = {"history": "length 2 (induction step: state after any request equals the initial state, by (c))",
                     "batch": "n <= 2", "strings": "len <= 2/3"}
    report.outside = ["real concurrent dispatcher threads (argued from (c): no shared writes)",
                      "form of replies to structurally invalid requests without version marker (answered in the server's form; not demanded)"]
    report.assumptions = ["token codec stub", "logging disabled", "attribute-identity snapshot detects writes to the dispatcher (in-place mutation of nested objects other than funcs/config is not tracked)"]
    report.trusted_base = ["crosshair-tool 0.0.110", "z3 5.1.0", "harness/disp.py oracle"]
    Runner(report, "harness.disp", tier).run(obligations(tier, H))
    s1, l1 = req("call10", "r1")
    s2, l2 = req("raise20", "r2")
    report.functions |= traced_functions(H.h_history, {"r1": s1, "r2": s2, "aspect": "C13"}, D.sample_leaves(l1 + l2))
    report.functions |= traced_functions(H.h_copy, {"side": "copy", "what": "version"}, {"val": 1.0})
