"""
C16 -- future completion protocol: done/result/callback exactly once.
Decided by z3 on the transition system compiled from the current source of
EventData / FutureResult (whole-program windows: executor || registrar ||
observer), every counterexample replayed on the real classes.
"""
import itertools

from engine.ts import bmc, driver, lower
from engine.ts.core import eq, ne, le, ge, lt, and_, or_, not_, truthy

LEVEL = "model_checking"

EXECUTOR = '''try:
    FUT0.execute(TASK0, None, None)
    ex = 1
except Exception as err:
    ex = 2
    exv = err
'''
REG1 = '''FUT0.set_callback(CB0, EXTRA0)
'''
REG2 = '''FUT0.set_callback(CB0, EXTRA0)
FUT0.set_callback(CB1, EXTRA1)
'''
REG2N = '''FUT0.set_callback(CB0, EXTRA0)
FUT0.set_callback(CB1)
'''
OBSERVER = '''d1 = FUT0.done()
s1 = 0
try:
    r1 = FUT0.result(TMO)
    s1 = 1
except OSError:
    s1 = 2
except Exception as e1:
    s1 = 3
    x1 = e1
d2 = FUT0.done()
s2 = 0
try:
    r2 = FUT0.result(TMO)
    s2 = 1
except OSError:
    s2 = 2
except Exception as e2:
    s2 = 3
    x2 = e2
'''


def build(spec):
    U = lower.Universe(workers=0, tasks=1, clients=len(spec["clients"]), task_kinds=[spec["task"]],
                       cb_kinds=spec["cbs"], regs=2, gates=1)
    if "reg2n" in spec["clients"]:
        U.extra_none = {1}
    programs = [{"executor": EXECUTOR, "reg1": REG1, "reg2": REG2, "reg2n": REG2N, "observer": OBSERVER}[c] for c in spec["clients"]]
    system, lo = lower.build_system(driver.read_source(), driver.NORMALISED, U, programs)
    system.classify()
    done = bmc.all_done(system)
    kind = spec["task"]
    RES, EXC = U.RES0, U.EXC0
    props = []
    nregs = 2 if "reg2" in spec["clients"] or "reg2n" in spec["clients"] else (1 if "reg1" in spec["clients"] else 0)
    for j in range(nregs):
        props.append(bmc.Prop("callback {0} invoked at most once".format(j), lambda S, j=j: le(S["cb_count[{0}]".format(j)], 1),
                              finding="C16-double-callback"))
    if nregs:
        last = nregs - 1
        props.append(bmc.Prop("last registered callback invoked at least once when everything has finished",
                              lambda S: ge(S["cb_count[{0}]".format(last)], 1), kind="final", when=done))
        props.append(bmc.Prop("callback gets the extra of its own registration", lambda S: not_(S["cb_wrong_extra"]),
                              finding="C16-stale-extra"))

        def outcome_ok(S):
            conj = []
            for j in range(nregs):
                called = ge(S["cb_count[{0}]".format(j)], 1)
                if kind == "raise":
                    ok = and_(eq(S["cb_data[{0}]".format(j)], lower.NONE), eq(S["cb_exc[{0}]".format(j)], EXC))
                else:
                    ok = and_(eq(S["cb_data[{0}]".format(j)], RES), eq(S["cb_exc[{0}]".format(j)], lower.NONE))
                conj.append(or_(not_(called), ok))
            return and_(*conj)

        props.append(bmc.Prop("callback receives the final (result, exception)", outcome_ok))
    if "observer" in spec["clients"]:
        t = spec["clients"].index("observer")
        v = lambda S, name, t=t: S["T{0}.client{0}.{1}".format(t, name)]  # noqa

        def observed(S):
            fin = S["finished[0]"]
            conj = [or_(not_(truthy(v(S, "d1"))), fin), or_(not_(truthy(v(S, "d2"))), fin)]
            for s, r, x in (("s1", "r1", "x1"), ("s2", "r2", "x2")):
                conj.append(or_(ne(v(S, s), 1), and_(fin, eq(v(S, r), RES), kind != "raise")))
                conj.append(or_(ne(v(S, s), 3), and_(fin, eq(v(S, x), EXC), kind == "raise")))
            return and_(*conj)

        props.append(bmc.Prop("done()/result() only report a finished task, with its own outcome", observed))

        def consistent(S):
            first_done = or_(eq(v(S, "s1"), 1), eq(v(S, "s1"), 3))
            second_seen = ne(v(S, "s2"), 0)
            same = and_(eq(v(S, "s2"), v(S, "s1")), or_(ne(v(S, "s1"), 1), eq(v(S, "r2"), v(S, "r1"))))
            c1 = or_(not_(and_(first_done, second_seen)), same)
            # once done() was True, a later result() never times out
            c2 = or_(not_(and_(truthy(v(S, "d1")), ne(v(S, "s1"), 0))), ne(v(S, "s1"), 2))
            c3 = or_(not_(and_(truthy(v(S, "d2")), ne(v(S, "s2"), 0))), ne(v(S, "s2"), 2))
            return and_(c1, c2, c3)

        props.append(bmc.Prop("after completion done()/result() answer immediately and consistently", consistent))
    if "executor" in spec["clients"]:
        t = spec["clients"].index("executor")

        def contained(S, t=t):
            ex = S["T{0}.client{0}.ex".format(t)]
            if kind == "raise":
                ok = and_(eq(ex, 2), eq(S["T{0}.client{0}.exv".format(t)], EXC))
            else:
                ok = eq(ex, 1)
            return and_(ok, eq(S["T{0}.uncaught".format(t)], lower.NONE))

        props.append(bmc.Prop("execute() propagates exactly the task's outcome whatever the callback does", contained, kind="final", when=done))

        def stored(S):
            data = [k for k in S if k.startswith("ED.") and k.endswith("__data[0]")]
            exc = [k for k in S if k.startswith("ED.") and k.endswith("__exception[0]")]
            if len(data) != 1 or len(exc) != 1:
                return True
            if kind == "raise":
                return and_(eq(S[data[0]], lower.NONE), eq(S[exc[0]], EXC))
            return and_(eq(S[data[0]], RES), eq(S[exc[0]], lower.NONE))

        props.append(bmc.Prop("the stored outcome is the task's outcome when everything has finished", stored, kind="final", when=done))

    def real_violation(prop, real, final):
        calls = real.get("cb_calls", [])
        if prop.startswith("callback") and "at most once" in prop:
            j = int(prop.split()[1])
            return len([c for c in calls if c[0] == j]) > 1
        if "extra of its own" in prop:
            return any(c[3] != (None if c[0] in U.extra_none else "extra{0}".format(c[0])) for c in calls)
        return not driver.conforms(driver.model_observations(system, final, U, lo), real, U)

    return {"system": system, "lo": lo, "universe": U, "clients": programs, "props": props, "twin": done,
            "prefix": [], "uses_pool": False, "real_violation": real_violation}


def specs(tier):
    out = []
    thorough = tier == "thorough"
    for task in ("ret", "raise"):
        for cb in (("ret", "ret"), ("raise", "raise"), ("arity", "ret"), ("ret", "arity")):
            for clients in (["executor", "reg1"], ["executor", "reg1", "observer"], ["executor", "reg2"], ["executor", "observer"],
                            ["executor", "reg2", "observer"]):
                if not thorough and cb in (("arity", "ret"), ("ret", "arity")) and "observer" in clients:
                    continue
                name = "c16-{0}-{1}-{2}".format(task, "+".join(cb), "+".join(clients))
                out.append({"name": name, "task": task, "cbs": list(cb), "clients": clients})
        # the second registration passes no extra: its callback gets None, not the first registration's extra
        for cb in (("ret", "ret"), ("raise", "ret")):
            clients = ["executor", "reg2n"]
            out.append({"name": "c16-{0}-{1}-{2}".format(task, "+".join(cb), "+".join(clients)), "task": task, "cbs": list(cb), "clients": clients})
    return out


def regimes(tier, nclients):
    if tier == "thorough":
        return [{"name": "all-interleavings", "depth": 30 if nclients <= 2 else 24, "preempt": None, "timeout": 1800},
                {"name": "context-bounded", "depth": 44 if nclients <= 2 else 36, "preempt": 3, "timeout": 1800}]
    # (z3 time-outs are wall-clock: the slowest single query takes 60-125 s on an idle sandbox, so 200 s
    # left less than 2x; an `unsat` returns as soon as it is found, whatever the limit)
    return [{"name": "all-interleavings", "depth": 24 if nclients <= 2 else 22, "preempt": None, "timeout": 900},
            {"name": "context-bounded", "depth": 34 if nclients <= 2 else 28, "preempt": 2, "timeout": 900}]


def run(report, tier):
    report.explanation = (
        "The transition system is compiled from the current AST of EventData and FutureResult (one node "
        "per traced source line, calls inlined, threading.Event as a primitive); thread-local steps are "
        "fused (Lipton reduction). For every scenario -- executor (execute with a returning or raising "
        "task) || registrar (one or two set_callback registrations; callbacks that return, raise, or have "
        "the wrong arity) || observer (done()/result(timeout) twice) -- z3 decides each clause for ALL "
        "interleavings up to the stated number of scheduling steps (and, deeper, for all interleavings "
        "with a bounded number of preemptions). A completion twin (all threads can finish within the "
        "depth) guards against vacuity; its witness run and every counterexample schedule are replayed "
        "line by line on the real classes under a settrace scheduler and compared event by event."
    )
    jobs = []
    for spec in specs(tier):
        for regime in regimes(tier, len(spec["clients"])):
            jobs.append((spec, regime))
    report.bounds = {"threads": "2-3 (executor, registrar, observer)", "registrations": "<= 2",
                     "scheduling steps": "{0}".format(sorted({(r["name"], r["depth"], r.get("preempt")) for _, r in jobs})),
                     "granularity": "source line (line events of the tracer); steps touching only thread-local data fused"}
    report.outside = ["interleavings finer than source lines (bytecode level)", "more than one executor / more than two registrations",
                      "real OS scheduling: the replay drives real threads deterministically, it does not sample them"]
    report.assumptions = ["threading.Event modelled as a flag with wait(timeout) = may time out whenever the flag is clear",
                          "task and callback bodies are opaque two-/one-line functions of the stated kinds"]
    report.trusted_base = ["z3 5.1.0", "engine/ts (py2ts translator, validated at every run by replaying solver witnesses on the real code)"]
    # sequential part: callback exceptions contained for every kind of callable (CrossHair)
    from engine.ch import Ob, Runner
    import harness.c16 as H

    obs = []
    for kind in ("function", "lambda", "partial", "partial_arity", "object", "bound", "builtin_arity", "one_arg"):
        for fail in (False, True):
            for task in ("ret", "raise", "raise_falsy"):
                for when in ("before", "after"):
                    shape = {"kind": kind, "fail": fail, "task": task, "when": when}
                    code = 101 if kind in ("partial_arity", "builtin_arity", "one_arg") else 100
                    obs.append(Ob("c16_contained_{0}_{1}_{2}_{3}".format(kind, int(fail), task, when), "value: int, extra: int",
                                  "H.h_contained({0!r}, value, extra)".format(shape), shape=shape, twin_codes=(code,), timeout=60))
    Runner(report, "harness.c16", tier).run(obs)
    driver.run_all("props.c16", jobs, report)
    report.extra["windows"] = len(jobs)
