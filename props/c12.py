"""
C12 -- servers isolate concurrent clients and always shut down cleanly.
CrossHair: hand-off of connections to the request pool.  z3 on the transition
system: lifecycle histories {construct, serve in a thread, handle requests,
shutdown, server_close}; the two methods of PooledJSONRPCServer are translated
from their current AST, BaseServer.serve_forever/shutdown are primitives written
from the standard library's source.
"""
import ast
import os
import threading
import time

from engine.ch import Ob, Runner
from engine.common import REPO
from engine.ts import driver, lower
from props import poolscn

LEVEL = "model_checking"
FINDING = "C12-close-never-served"

# BaseServer.serve_forever (stdlib): is_shut_down.clear(); loop { if shutdown_request: break;
# a ready request -> process_request }; finally shutdown_request = False; is_shut_down.set()
# GATE1 stands for BaseServer.__is_shut_down (initially clear, as in BaseServer.__init__).
SERVE = '''GATE1.clear()
{requests}GATE3.wait(None)
shutdown_request = False
GATE1.set()
'''
# BaseServer.shutdown (stdlib): shutdown_request = True; is_shut_down.wait()
# (GATE3 stands for the selector waking up: the serving loop polls until a shutdown is requested;
#  a blocking wait instead of a busy loop keeps 'nothing can move' observable)
SHUTDOWN = "shutdown_request = True\nGATE3.set()\nGATE1.wait(None)\n"


def translate_server():
    """
    PooledJSONRPCServer.server_close / process_request from the current source
    -> client-program fragments.  Unknown statements -> Unsupported.
    """
    path = os.path.join(REPO, "jsonrpclib", "SimpleJSONRPCServer.py")
    tree = ast.parse(open(path).read())
    cls = [n for n in tree.body if isinstance(n, ast.ClassDef) and n.name == "PooledJSONRPCServer"]
    if not cls:
        raise lower.Unsupported("PooledJSONRPCServer not found")
    methods = {n.name: n for n in cls[0].body if isinstance(n, ast.FunctionDef)}
    out = {}
    for name in ("server_close", "process_request"):
        if name not in methods:
            raise lower.Unsupported("PooledJSONRPCServer.{0} not found".format(name))
        frags = []
        for stmt in methods[name].body:
            if isinstance(stmt, ast.Expr) and isinstance(stmt.value, ast.Constant):
                continue
            text = ast.unparse(stmt)
            if isinstance(stmt, ast.Expr) and isinstance(stmt.value, ast.Call):
                call = stmt.value
                f = call.func
                if isinstance(f, ast.Attribute) and isinstance(f.value, ast.Name) and f.value.id in ("SimpleJSONRPCServer", "socketserver"):
                    if f.attr == "shutdown":
                        frags.append(("shutdown", SHUTDOWN))
                        continue
                    if f.attr == "server_close":
                        frags.append(("close_socket", "socket_closed = True\n"))
                        continue
                if isinstance(f, ast.Attribute) and isinstance(f.value, ast.Attribute) and f.value.attr.endswith("request_pool"):
                    if f.attr == "stop" and not call.args:
                        frags.append(("pool_stop", "pool_serving = False\npool.stop()\nstop_returned = True\n"))
                        continue
                    if f.attr == "enqueue" and name == "process_request":
                        a = call.args
                        if (len(a) == 3 and isinstance(a[0], ast.Attribute) and a[0].attr == "process_request_thread"
                                and isinstance(a[1], ast.Name) and isinstance(a[2], ast.Name)):
                            frags.append(("enqueue", "f{k} = pool.enqueue(TASK{k})\n"))
                            continue
            raise lower.Unsupported("PooledJSONRPCServer.{0}: cannot translate `{1}`".format(name, text[:60]))
        out[name] = frags
    return out


def ts_jobs(tier):
    thorough = tier == "thorough"
    tr = translate_server()
    close = "".join(text for _, text in tr["server_close"])
    handle = "".join(text for _, text in tr["process_request"])
    full = {"name": "all-interleavings", "depth": 16 if not thorough else 18, "preempt": None, "timeout": 200 if not thorough else 900}
    out = []
    sizes = [(1, 0), (2, 0), (2, 1)] if not thorough else [(1, 0), (2, 0), (2, 1), (3, 0)]
    for mx, mn in sizes:
        # the pool is created and started by the constructor (op 0)
        # (1) server_close() alone, never served
        ops = ["start", "raw:" + close]
        base = {"max": mx, "min": mn, "tasks": ["ret"], "clients": [ops], "gates": 4, "props": ["nodeadlock", "socket", "stopped_clean"],
                "window_at": 1, "twin_prog": "none", "deadlock_finding": FINDING}
        out.append((dict(base, name="c12-close-never-served-max{0}min{1}".format(mx, mn)), full))
        # (2) serving in a thread, k requests handled, shutdown() then server_close()
        for nreq, tasks in ((1, ["ret"]), (2, ["ret", "raise"]), (1, ["gate0"])):
            reqs = "".join("if not shutdown_request:\n    " + handle.format(k=k).replace("\n", "\n    ").rstrip(" ") for k in range(nreq))
            serve = SERVE.format(requests=reqs)
            closer = ["start", "raw:" + SHUTDOWN, "raw:" + close]
            clients = [closer, ["raw:" + serve]]
            if tasks == ["gate0"]:
                clients.append(["open0"])
            for k in (1, 2):
                base = {"max": mx, "min": mn, "tasks": tasks, "clients": clients, "gates": 4, "W": mx + 1,
                        "props": ["nodeadlock", "socket", "stopped_clean", "exactly_once", "no_run_after_stop"],
                        "window_at": k, "twin_prog": "progress"}
                out.append((dict(base, name="c12-serve{0}-{1}-max{2}min{3}-op{4}".format(nreq, tasks[0], mx, mn, k)), full))
                if k == 1:
                    # the serving thread (and the releasing client) start inside the window
                    out.append((dict(base, name="c12-serve{0}-{1}-max{2}min{3}-op{4}-fresh".format(nreq, tasks[0], mx, mn, k),
                                     hold=[1, 2]), full))
        # (2b) an in-flight request completes while server_close() is inside pool.stop(): the window
        #      starts when every worker has gone (the busy one never consumed its stop marker)
        reqs = "if not shutdown_request:\n    " + handle.format(k=0).replace("\n", "\n    ").rstrip(" ")
        serve = SERVE.format(requests=reqs)
        closer = ["start", "raw:" + SHUTDOWN, "raw:" + close]
        clients = [closer, ["raw:" + serve], ["raw:GATE2.wait(None)\n", "open0"]]
        closer2 = ["start", "raw:" + SHUTDOWN, "raw:GATE2.set()\n" + close]
        base = {"max": mx, "min": mn, "tasks": ["gate0"], "clients": [closer2, ["raw:" + serve], ["raw:GATE2.wait(None)\n", "open0"]],
                "gates": 4, "W": mx + 1, "props": ["nodeadlock", "socket", "stopped_clean", "exactly_once"], "window_at": 2,
                "prefix": [("rr_cond", "workers_gone_while_stopping", [0, 1, 2] + list(range(3, 3 + mx + 1)))]}
        out.append((dict(base, name="c12-close-inflight-tail-max{0}min{1}".format(mx, mn)), dict(full, depth=full["depth"] + 2)))
        # (3) a backlog: request 0 blocks its worker, request 1 waits in the queue; the closing client
        #     waits for request 1's completion (it opens gate 2) before shutting the server down
        reqs = "".join("if not shutdown_request:\n    " + handle.format(k=k).replace("\n", "\n    ").rstrip(" ") for k in range(2))
        serve = SERVE.format(requests=reqs)
        closer = ["start", "raw:GATE2.wait(None)\n", "raw:" + SHUTDOWN, "raw:" + close]
        clients = [closer, ["raw:" + serve], ["open0"]]
        for k in (1,):
            base = {"max": mx, "min": mn, "tasks": ["gate0", "open2"], "clients": clients, "gates": 4, "W": mx + 2,
                    "props": ["nodeadlock", "exactly_once", "bounded"], "window_at": k, "twin_prog": "progress", "hold": [2],
                    "prefix": [("rr_cond", "backlog", [1] + list(range(3, 3 + mx + 2)))]}
            out.append((dict(base, name="c12-backlog-max{0}min{1}-op{2}".format(mx, mn, k)), dict(full, depth=full["depth"] + 6)))
    # (4) a connection is accepted while the pool's idle worker is at its retirement decision / idle
    #     time-out (the default request pool shrinks to 0 workers): the request is still served
    for mx, mn in sizes:
        ops = ["start", "enq0", "await0", "enq1", "await1"]
        base = {"max": mx, "min": mn, "tasks": ["ret", "ret"], "clients": [ops], "props": ["exactly_once", "nodeadlock", "results"],
                "window_at": 3, "twin_prog": "progress"}
        out.append((dict(base, name="c12-retire-max{0}min{1}-aftertask".format(mx, mn)), dict(full, depth=full["depth"] + 2)))
        for w in range(mx):
            out.append((dict(base, name="c12-retire-max{0}min{1}-idle{2}".format(mx, mn, w), prefix=[("until", 1 + w, {"label": "Queue.get"})]),
                        dict(full, depth=full["depth"] + 2)))
    return out, tr


def real_close_never_served():
    """
    Concrete confirmation of the known finding on the real classes: server_close()
    on a server that never served does not return.
    """
    import jsonrpclib.SimpleJSONRPCServer as srv

    server = srv.PooledJSONRPCServer(("127.0.0.1", 0), logRequests=False)
    done = threading.Event()

    def closer():
        server.server_close()
        done.set()

    t = threading.Thread(target=closer, daemon=True)
    t.start()
    blocked = not done.wait(2.5)
    if blocked:
        # release it: pretend a serve_forever() has ended
        getattr(server, "_BaseServer__is_shut_down").set()
        done.wait(5)
    return blocked


def ch_obligations(tier, H):
    obs = []
    for n in (1, 2, 3):
        shape = {"n": n}
        obs.append(Ob("c12_handoff_{0}".format(n), "req: int, addr: str, port: int", "H.h_handoff({0!r}, req, addr, port)".format(shape),
                      pre=["len(addr) <= 3"], shape=shape, twin_codes=(100,), timeout=90))
    for exc in H.FAILURES:
        for form in ("2.0", "1.0", "notify"):
            shape = {"exc": exc, "form": form}
            obs.append(Ob("c12_failing_{0}_{1}".format(exc, form.replace(".", "")), "rid: int, arg: int",
                          "H.h_failing_method({0!r}, rid, arg)".format(shape), shape=shape,
                          twin_codes=(102,) if form == "notify" else (100,), timeout=90))
    # a malformed request (body shorter than announced, peer half-closes) is answered and does not wedge the handler
    for text in (1, 5):
        shape = {"part": "do_POST", "text": text, "reply": 0, "missing": 3}
        obs.append(Ob("c12_truncated_body_{0}".format(text), "c1: int, c2: int", "H.h_do_post({0!r}, c1, c2, 'application/json-rpc')".format(shape),
                      pre=["0 <= c1 <= c2 <= 8"], shape=shape, twin_codes=(100,), timeout=90))
    obs.append(Ob("c12_pool_user", "", "H.h_pool_ownership({'pool': 'user'})", shape="user-supplied pool is used as given", twin_codes=(100,)))
    obs.append(Ob("c12_pool_default", "", "H.h_pool_ownership({'pool': 'default'})", shape="default pool is created and started", twin_codes=(101,)))
    return obs


def run(report, tier):
    import harness.c12 as H

    report.explanation = (
        "(1) CrossHair executes PooledJSONRPCServer.process_request with symbolic request/address tokens "
        "and a recording pool: exactly one enqueue(process_request_thread, request, address) per "
        "connection, nothing else on the server object is touched; default pool created and started, a "
        "user pool used as given. (2) z3 on the transition system: PooledJSONRPCServer.server_close and "
        "process_request are translated from their current AST into steps over the compiled ThreadPool; "
        "BaseServer.serve_forever/shutdown are primitives written from the standard library's source "
        "(is_shut_down event, shutdown_request flag). Lifecycle windows: server_close() alone when never "
        "served; serving in a thread with 1-2 handled requests (returning, raising, or in flight behind a "
        "gate another client releases) followed by shutdown() and server_close(). Clauses: no state in "
        "which the closing client waits and nothing can move, afterwards the socket is closed, every pool "
        "worker has terminated, no request is executed twice or after the pool stopped. Isolation of "
        "concurrent requests is argued by composition: requests share only state nobody writes (C13), "
        "every hand-off is executed exactly once (C09)."
    )
    js, tr = ts_jobs(tier)
    report.bounds = {"requests per history": "<= 2", "pool sizes": sorted({(s["max"], s["min"]) for s, _ in js}),
                     "history": "construct, [serve in a thread, handle k requests], [shutdown], server_close",
                     "regimes": sorted({(r["name"], r["depth"], r.get("preempt")) for _, r in js})}
    report.outside = ["real TCP/Unix sockets, kernel accept queues, any number of real concurrent connections, request/response pairing on the wire",
                      "socketserver internals other than the serve_forever/shutdown handshake", "SimpleJSONRPCServer (non-pooled) shutdown: pure stdlib code"]
    report.assumptions = ["BaseServer.serve_forever/shutdown primitive written from the stdlib source", "recording pool contract = C09"]
    report.trusted_base = ["z3 5.1.0", "crosshair-tool 0.0.110", "engine/ts translator", "props/c12.py translation of the two server methods"]
    report.extra["translated_server_methods"] = {k: [kind for kind, _ in v] for k, v in tr.items()}
    report.functions |= {"jsonrpclib/SimpleJSONRPCServer.py:PooledJSONRPCServer.server_close", "jsonrpclib/SimpleJSONRPCServer.py:PooledJSONRPCServer.process_request"}
    Runner(report, "harness.c12", tier).run(ch_obligations(tier, H))
    known_before = len(report.known)
    driver.run_all("props.poolscn", js, report)
    if len(report.known) > known_before:
        # the model-level deadlock is additionally confirmed on the real server class
        try:
            blocked = real_close_never_served()
        except Exception as ex:  # noqa
            blocked = None
            report.inconclusive.append("window=c12-close-never-served reason=real confirmation failed: {0}".format(ex))
        report.extra["real_server_close_without_serving_blocks"] = blocked
        if blocked is False:
            report.inconclusive.append("window=c12-close-never-served reason=model deadlock not confirmed on the real PooledJSONRPCServer")
    report.extra["windows"] = len(js)
