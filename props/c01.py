"""
C01 -- end-to-end call transparency across versions, server classes and call styles.
"""
from engine.ch import Runner, traced_functions
from props import dispshapes as D

VALUE_KINDS = ("int", "str", "bool", "float", "null", "estr", "zero", "false", "elist", "edict", "list", "dict", "nested", "big")


def vspec(kind, p):
    if kind in ("int", "str", "bool", "float", "null", "estr", "elist", "edict"):
        return D.kind_spec(kind, p)
    if kind == "zero":
        return ("const", 0), []
    if kind == "false":
        return ("const", False), []
    if kind == "big":
        return ("const", 2 ** 53), []
    if kind == "list":
        return ("list", [("leaf", p + "i"), ("const", []), ("const", "")]), [(p + "i", "int")]
    if kind == "dict":
        return ("dict", {"k": ("leaf", p + "s"), "e": ("const", {}), "n": ("const", None)}), [(p + "s", "str")]
    if kind == "jcdict":
        # plain data when class translation is off: a dictionary that merely looks like a class descriptor
        return (("dict", {"__jsonclass__": ("list", [("const", "collections.OrderedDict"), ("const", [])]), "v": ("leaf", p + "i")}),
                [(p + "i", "int")])
    if kind == "nested":
        return (("list", [("list", [("leaf", p + "i"), ("const", False)]), ("dict", {"k": ("list", [("leaf", p + "s")])})]),
                [(p + "i", "int"), (p + "s", "str")])
    raise ValueError(kind)


def obligations(tier, H):
    thorough = tier == "thorough"
    strlen = 3 if thorough else 2
    obs = []
    n = [0]
    counter = [0]

    def next_kind():
        counter[0] += 1
        return VALUE_KINDS[counter[0] % len(VALUE_KINDS)]

    def add(shape, leaves):
        n[0] += 1
        obs.append(D.make_ob("c01_{0:05d}".format(n[0]), shape, leaves, strlen, H=H, fn="h_call", timeout=60))

    arg_structs = [(0, ()), (1, ()), (2, ()), (3, ()), (0, ("a",)), (0, ("a", "b"))]
    configs = []
    for server in ("bare", "simple", "pooled"):
        for sver, cver in ((2.0, None), (1.0, None), (2.0, 1.0), (1.0, 2.0)):
            for jc in (True, False):
                configs.append({"server": server, "sver": sver, "cver": cver, "jsonclass": jc})
    styles = [{"style": "call"}]
    for nb in (1, 2, 3):
        for pos in range(nb):
            for neigh in (("call",) * nb, ("notify",) * nb):
                if nb == 1 and neigh[0] == "notify":
                    continue
                styles.append({"style": "batch", "n": nb, "pos": pos, "neigh": list(neigh)})
    styles.append({"style": "batch", "n": 1, "pos": 0, "neigh": ["call"], "reuse": True})
    styles.append({"style": "batch", "n": 2, "pos": 1, "neigh": ["notify", "call"], "reuse": True})
    for ci, cfg in enumerate(configs):
        if not thorough and cfg["server"] != "bare" and (cfg["sver"], cfg["cver"]) not in ((2.0, None), (1.0, None)):
            continue
        for si, style in enumerate(styles):
            if style["style"] == "batch" and cfg["cver"] == 1.0 and not thorough:
                continue
            for ai, (npos, kws) in enumerate(arg_structs):
                reps = len(VALUE_KINDS) if thorough else 3
                if not thorough and (cfg["server"] != "bare" or not cfg["jsonclass"]) and style["style"] == "batch":
                    reps = 1
                for rep in range(reps):
                    leaves = []
                    args = []
                    for k in range(npos):
                        spec, lv = vspec(next_kind(), "a{0}".format(k))
                        args.append(spec)
                        leaves += lv
                    kwargs = {}
                    for key in kws:
                        spec, lv = vspec(next_kind(), "k" + key)
                        kwargs[key] = spec
                        leaves += lv
                    rspec, lv = vspec(next_kind(), "r")
                    leaves += lv
                    shape = dict(cfg)
                    shape.update(style)
                    shape.update({"name": (ci + si + ai + rep) % len(H.NAMES), "args": args, "kwargs": kwargs, "ret": rspec})
                    add(shape, leaves)
    # ---- translation off: descriptor look-alikes are plain data in both directions ---------
    for ci, cfg in enumerate(configs):
        if cfg["jsonclass"]:
            continue
        if not thorough and cfg["server"] != "bare" and (cfg["sver"], cfg["cver"]) != (2.0, None):
            continue
        for si, style in enumerate(({"style": "call"}, {"style": "batch", "n": 2, "pos": 1, "neigh": ["call", "call"]})):
            for ai, (akinds, kkinds, rkind) in enumerate(((("jcdict",), {}, "int"), (("int",), {}, "jcdict"), ((), {"a": "jcdict"}, "jcdict"))):
                leaves, args, kwargs = [], [], {}
                for k, kind in enumerate(akinds):
                    spec, lv = vspec(kind, "a{0}".format(k))
                    args.append(spec)
                    leaves += lv
                for key, kind in kkinds.items():
                    spec, lv = vspec(kind, "k" + key)
                    kwargs[key] = spec
                    leaves += lv
                rspec, lv = vspec(rkind, "r")
                leaves += lv
                shape = dict(cfg)
                shape.update(style)
                shape.update({"name": (ci + si + ai) % len(H.NAMES), "args": args, "kwargs": kwargs, "ret": rspec, "lookalike": True})
                add(shape, leaves)
    return obs


def run(report, tier):
    import harness.c01 as H

    report.explanation = (
        "CrossHair executes the real client (ServerProxy/_Method/MultiCall/dumps/loads/check_for_errors/"
        "History) and the real server dispatch path symbolically through an in-process loopback transport "
        "and the token codec: one obligation per (server class in {bare dispatcher, SimpleJSONRPCServer, "
        "PooledJSONRPCServer} x server/client version x class translation on/off x call style {plain or "
        "dotted call, batch of 1-3 with the call at each position among calls or notifications} x argument "
        "structure {0-3 positional | 1-2 keywords} x method name from a table) with the value kind of every "
        "argument and of the return value rotating over 14 kinds (int, str, bool, float leaves symbolic; "
        "null, '', 0, False, [], {}, 2^53; lists, dicts and two-level nestings holding symbolic leaves; with translation off also dictionaries that look like "
        "class descriptors, as argument, keyword argument and return value). "
        "Oracle: the callable's log has exactly one entry with normalise(args)/kwargs (typed equality), the "
        "proxy returns normalise(result), History holds exactly the texts handed to and returned by the "
        "transport, in order."
    )
    report.bounds = {"arguments": "<= 3 positional or <= 2 keywords; nesting depth <= 2", "batch": "n <= 3", "strings": "len <= 2/3",
                     "names": "table of 14 (identifier, dotted, non-ASCII, dict-method name, with space, proxy-attribute look-alikes, names beginning or ending with two underscores)"}
    report.outside = ["TCP and Unix-socket transports and a serving pooled server (real sockets/threads): loopback only",
                      "the JSON codec's text<->value mapping (token codec)", "free symbolic method names (getattr/hash realise them)"]
    report.assumptions = ["token codec stub", "loopback transport", "uuid stub", "logging disabled"]
    report.trusted_base = ["crosshair-tool 0.0.110", "z3 5.1.0", "harness/c01.py oracle"]
    Runner(report, "harness.c01", tier).run(obligations(tier, H))
    report.functions |= traced_functions(
        H.h_call,
        {"server": "pooled", "sver": 2.0, "cver": None, "jsonclass": True, "style": "batch", "n": 3, "pos": 1, "neigh": ["call", "call", "notify"],
         "name": 2, "args": [("leaf", "x")], "kwargs": {}, "ret": ("list", [("leaf", "x")])}, {"x": 5})
