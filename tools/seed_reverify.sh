#!/bin/bash
# seed_reverify.sh <name>: re-confirms a stored seed against the current /repo HEAD
# (patch re-based if needed; demo passes on HEAD and fails with the patch; pinned suite passes with it).
NAME=$1; D=/verif/seeded/$NAME
WT=/tmp/srv_${NAME}_$$
git -C /repo worktree add -q --detach $WT HEAD || exit 2
trap "git -C /repo worktree remove --force $WT 2>/dev/null" EXIT
cd $WT
PYTHONPATH=$WT timeout 180 /venv/bin/python $D/demo.py >/dev/null 2>&1; RC_CLEAN=$?
if ! git apply $D/patch.diff 2>/dev/null && ! git apply -3 $D/patch.diff 2>/dev/null; then echo "REVERIFY $NAME: patch does not apply to HEAD"; exit 1; fi
git diff HEAD -- jsonrpclib > /tmp/srv_patch_$$.diff
PYTHONPATH=$WT timeout 180 /venv/bin/python $D/demo.py >/dev/null 2>&1; RC_MUT=$?
BASE=$(PYTHONPATH=$WT /verif/tools/baseline.sh $WT 2>&1 | tail -1)
HEAD=$(git -C /repo rev-parse --short HEAD)
if [ $RC_CLEAN -eq 0 ] && [ $RC_MUT -ne 0 ] && echo "$BASE" | grep -q " OK"; then
  cp /tmp/srv_patch_$$.diff $D/patch.diff
  /venv/bin/python - "$D" "$HEAD" "$BASE" <<'PY'
import json,sys
d,head,base=sys.argv[1:4]
m=json.load(open(d+'/meta.json')); m['confirmed'].update({"repo_head":head,"baseline_with_patch":base,"demo_on_clean_head":"exit 0","demo_with_patch":"exit != 0"})
json.dump(m,open(d+'/meta.json','w'),indent=1)
PY
  echo "REVERIFY $NAME: ok at $HEAD"
else
  echo "REVERIFY $NAME: FAILED clean=$RC_CLEAN mutated=$RC_MUT $BASE"
fi
rm -f /tmp/srv_patch_$$.diff
