#!/bin/bash
# Runs every thorough command once, sequentially; log in /verif/build/thorough_sweep.log
cd /verif
mkdir -p build
touch build/thorough_sweep.log
for p in "$@"; do
  s=$(date +%s)
  timeout 5400 ./check $p --tier thorough > build/thorough_$p.log 2>&1; rc=$?
  e=$(date +%s)
  echo "$p exit=$rc wall=$((e-s))s $(tail -1 build/thorough_$p.log)" >> build/thorough_sweep.log
done
