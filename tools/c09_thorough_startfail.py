import sys
sys.path.insert(0, '/verif'); sys.path.insert(1, '/repo')
from engine.common import Report
import props.c09 as P
from engine.ts import driver
js = [(s, r) for s, r in P.jobs("thorough") if "startfail1" in s["name"]]
print(len(js), "windows")
rep = Report("C09", "thorough", 1, level="model_checking")
driver.run_all("props.poolscn", js, rep)
print("obligations", rep.obligations, "discharged", rep.discharged, "twins", rep.twins_refuted, "/", rep.twins, "inconclusive", rep.inconclusive[:5], "violations", getattr(rep, "violations", None))
