#!/bin/bash
# seed_run.sh <seed name> <PROP> [tier]: apply the seeded patch to /repo, run the check, undo.
NAME=$1; PROP=$2; TIER=${3:-quick}
cd /repo && git diff --quiet || { echo "/repo is dirty"; exit 2; }
git -C /repo apply /verif/seeded/$NAME/patch.diff || { echo "patch does not apply"; exit 2; }
cd /verif && VERIF_NO_EVIDENCE=1 ./check $PROP --tier $TIER > /tmp/seedrun_${NAME}_${PROP}.log 2>&1; RC=$?
git -C /repo checkout -- .
echo "SEEDRUN $NAME on $PROP/$TIER: exit=$RC $(grep -c '^VIOLATION' /tmp/seedrun_${NAME}_${PROP}.log) violations; $(tail -1 /tmp/seedrun_${NAME}_${PROP}.log)"
exit $RC
