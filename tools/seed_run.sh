#!/bin/bash
# seed_run.sh <seed name> <PROP> [tier] [--in-repo]
# Runs a check against a seeded change.  Default: in a scratch worktree of /repo HEAD
# (VERIF_REPO points the check at it, nothing in /repo or the committed evidence is touched),
# so several can run at once.  --in-repo: the literal procedure (git -C /repo apply; check; checkout).
NAME=$1; PROP=$2; TIER=${3:-quick}
LOG=/tmp/seedrun_${NAME}_${PROP}.log
if [ "$4" = "--in-repo" ]; then
  cd /repo && git diff --quiet || { echo "/repo is dirty"; exit 2; }
  git -C /repo apply /verif/seeded/$NAME/patch.diff || { echo "patch does not apply"; exit 2; }
  cd /verif && VERIF_NO_EVIDENCE=.seed-$NAME ./check $PROP --tier $TIER > $LOG 2>&1; RC=$?
  git -C /repo checkout -- .
else
  WT=/tmp/sr_${NAME}_${PROP}_$$
  git -C /repo worktree add -q --detach $WT HEAD || exit 2
  if ! git -C $WT apply /verif/seeded/$NAME/patch.diff 2>/dev/null && ! git -C $WT apply -3 /verif/seeded/$NAME/patch.diff 2>/dev/null; then
     echo "SEEDRUN $NAME: patch does not apply"; git -C /repo worktree remove --force $WT; exit 2; fi
  cd /verif && VERIF_REPO=$WT VERIF_NO_EVIDENCE=.seed-$NAME ./check $PROP --tier $TIER > $LOG 2>&1; RC=$?
  git -C /repo worktree remove --force $WT
fi
rm -rf /verif/build/$PROP.seed-$NAME /verif/build/$PROP.seed-$NAME.seedrun-evidence.json
echo "SEEDRUN $NAME on $PROP/$TIER: exit=$RC $(grep -c '^VIOLATION' $LOG) violations; $(tail -1 $LOG)"
exit $RC
