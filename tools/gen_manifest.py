#!/usr/bin/env python3
"""
Writes /verif/MANIFEST.json from the table below (keeps it valid at all times).
"""
import json

CH = "CrossHair symbolic execution of the real functions, one SMT-decided obligation per shape (z3), reachability twins, native replay"
TS = "AST->transition system of threadpool.py, z3 bounded interleaving check + inductive lemmas, settrace replay on the real module"

CLAIMED = {
    "C06": {
        "category": "other",
        "text": "Bounded symbolic verification: CrossHair executes the real check_for_errors / ServerProxy / MultiCall result code symbolically; for each enumerated reply shape z3 decides the oracle for all values of code, message, trace, data, result and raw error (ints unbounded, strings <= 2/3 chars). Not a proof: shapes and string lengths are bounded.",
        "design_ref": "DESIGN.md 3/C06",
        "note": "Trusted: CrossHair's models of Python builtins, z3, the token-codec stub standing in for the JSON codec, the canned transport, the oracle in harness/c06.py.",
        "technique": CH,
        "engine": "CH",
    },
}

def _ch(prop, what, ref, note=None):
    return {
        "category": "other",
        "text": "Bounded symbolic verification: CrossHair executes the real code symbolically and z3 decides, per enumerated shape, the oracle for all values of the symbolic leaves (" + what + "). Every confirmed obligation has a reachability twin that must be refuted and replayed natively; every counterexample is replayed on the real code before it is reported. Not a proof: shapes, string lengths and batch sizes are bounded as stated in the evidence.",
        "design_ref": ref,
        "note": note or "Trusted: CrossHair's models of Python builtins, z3, the token-codec / parser-outcome stub standing in for the JSON codec, logging disabled, the oracle in the harness module.",
        "technique": CH,
        "engine": "CH",
    }


CLAIMED.update({
    "C01": _ch("C01", "argument and return leaves; server class x versions x translation x call style x argument structure x name table", "DESIGN.md 3/C01",
               "Trusted: as for C02, plus the in-process loopback transport; TCP/Unix-socket transports and a serving pooled server are outside this check (real sockets and threads)."),
    "C02": _ch("C02", "ids, version markers, parameters, return values; body = parser outcome", "DESIGN.md 3/C02"),
    "C03": _ch("C03", "ids of every JSON kind, parameters; batch compositions n<=2/3", "DESIGN.md 3/C03"),
    "C04": _ch("C04", "ids, parameters; notification form x outcome x batch position x dispatch/pool configuration", "DESIGN.md 3/C04",
               "Trusted: as for C02; the dispatcher side uses a recording pool, the pool side is decided on the transition system compiled from threadpool.py (engine TS, trusted base as for C09)."),
    "C05": _ch("C05", "ids and parameters; failure classes, method-name and message tables", "DESIGN.md 3/C05"),
    "C07": _ch("C07", "field values of generated class definitions; positions; direct and over the loopback RPC path", "DESIGN.md 3/C07"),
    "C08": dict(_ch("C08", "descriptor forms, depths, table names; tripwires", "DESIGN.md 3/C08"),
                technique="AST->z3 strings/regex translation of the name validation (decided for all strings) + " + CH,
                engine="SMT-S+CH"),
    "C17": _ch("C17", "byte bodies, content types, URL path/query strings, split points, read-chunk sizes; texts from a table", "DESIGN.md 3/C17",
               "Trusted: as for C02; recording connection, fake response and short-reading rfile obey the contracts of http.client / file.read; zlib; the str->bytes conversion itself is a C boundary (texts by table)."),
    "C18": _ch("C18", "header values (str/int/bool); block programs x header-name tables", "DESIGN.md 3/C18"),
    "C19": _ch("C19", "the fault kind of every exchange (13-symbol alphabet) and the per-call tokens; sequences <= 2/3", "DESIGN.md 3/C19",
               "Trusted: CrossHair, z3, the scripted in-memory socket (blocking-stream model, documented OSError subclasses), token codec stub; CPython's http.client and xmlrpc.client are executed for real, not modelled."),
    "C20": _ch("C20", "field values; ignore-list subsets, handler tables, configured names, positions", "DESIGN.md 3/C20"),
    "C13": _ch("C13", "ids, parameters, mutated Config values; request pairs and Config mutations; Config snapshots before, after and while the callables run", "DESIGN.md 3/C13"),
    "C14": _ch("C14", "rpcid, method text, parameter leaves, Fault fields", "DESIGN.md 3/C14"),
    "C15": _ch("C15", "every primitive leaf as Union[None,bool,int,float,str]; container nestings depth<=2/3", "DESIGN.md 3/C15"),
})

def _ts(what, ref):
    return {
        "category": "model_checking",
        "text": "Bounded model checking decided by z3 on a transition system compiled at every run from the current AST of jsonrpclib/threadpool.py (one step per traced source statement, calls inlined, threading/queue primitives modelled, thread-local steps fused by Lipton reduction): " + what + ". For every window z3 decides each clause for ALL interleavings up to the stated number of scheduling steps, and deeper for all interleavings with a bounded number of preemptions; completion twins guard against vacuity; every solver witness and counterexample is replayed statement by statement on the real classes with real threads under a settrace scheduler and compared event by event. Not a proof: threads, tasks, steps and preemptions are bounded as stated in the evidence.",
        "design_ref": ref,
        "note": "Trusted: z3; the py2ts translator and the primitive models of threading.Event/RLock/Thread and queue.Queue (validated on every run by replaying solver witnesses on the real code, fail-closed on unknown constructs); statement-level granularity (bytecode-level interleavings inside one statement are outside the claim); real OS scheduling is not sampled.",
        "technique": TS,
        "engine": "TS",
    }


CLAIMED.update({
    "C09": _ts("client programs over {start, enqueue (returning / raising tasks), wait for result, stop, restart} cut into windows at every operation, pool sizes max 1-2 (3 thorough), min 0..max, one or two clients, at most one failing Thread.start() where a scenario enables it", "DESIGN.md 3/C09"),
    "C10": dict(_ts("windows over programs with mutually dependent (gate-blocked) tasks, more work than workers, Thread.start() failures, tasks queued before start(); pool sizes max 1-2 (3 thorough), min 0..max", "DESIGN.md 3/C10"),
                technique="CrossHair on ThreadPool.__init__ (argument validation / clamping, all ints) + " + TS, engine="TS+CH"),
    "C11": _ts("lifecycle programs over {start, stop, enqueue, join, join(timeout), wait} up to 10 operations with instantaneous, failing and gate-blocked tasks and a second client, windows at every operation", "DESIGN.md 3/C11"),
    "C12": dict(_ts("lifecycle histories {construct, serve in a thread, handle 1-2 requests, shutdown, server_close} with PooledJSONRPCServer.server_close/process_request translated from their AST and BaseServer.serve_forever/shutdown as primitives; isolation argued by composition with C13 and C09", "DESIGN.md 3/C12"),
                technique="CrossHair on process_request (hand-off exactly once) + " + TS, engine="TS+CH"),
    "C16": _ts("executor || registrar || observer programs over one FutureResult, tasks that return or raise, callbacks that return, raise or have the wrong arity, one or two registrations", "DESIGN.md 3/C16"),
})

PENDING_REASON = "check not built yet in this session (planned, see DESIGN.md section 3); not claimed until its quick command passes on the unchanged tree"


def main():
    props = [json.loads(l) for l in open("/verif/properties.jsonl")]
    checks = []
    na = []
    for p in props:
        pid = p["id"]
        c = CLAIMED.get(pid)
        if c is None:
            na.append({"property_id": pid, "reason": NOT_APPLICABLE.get(pid, PENDING_REASON)})
            continue
        checks.append(
            {
                "property_id": pid,
                "quick_cmd": "./check {0} --tier quick".format(pid),
                "thorough_cmd": "./check {0} --tier thorough".format(pid),
                "evidence_file": "/verif/evidence/{0}.json".format(pid),
                "replay_cmd_template": "./check {0} --replay {{path}}".format(pid),
                "engine": c["engine"],
                "level_claimed": {"category": c["category"], "text": c["text"], "design_ref": c["design_ref"]},
                "level_note": c["note"],
                "technique": c["technique"],
            }
        )
    manifest = {
        "version": 1,
        "setup_cmd": "./setup.sh",
        "hooks": {
            "guard": "JSONRPCLIB_VERIF",
            "enable": "no source hooks are needed: all interposition is done from outside (module attributes, transport= objects, sys.settrace)",
            "baseline_off_cmd": "cd /repo && /venv/bin/python -m pytest -ra -q -p no:cacheprovider --timeout=900 --continue-on-collection-errors",
            "source_commits": [],
            "add_only": True,
        },
        "engines": [
            {"name": "CH", "path": "engine/ch.py", "serves_properties": sorted(k for k, v in CLAIMED.items() if "CH" in v["engine"]), "kind_free_text": "CrossHair (symbolic execution + z3) obligation runner: per-shape contracts, twins, native replay"},
            {"name": "SMT-S", "path": "engine/smts.py", "serves_properties": sorted(k for k, v in CLAIMED.items() if "SMT-S" in v["engine"]), "kind_free_text": "Python string-fragment AST -> z3 strings/regex"},
            {"name": "TS", "path": "engine/py2ts.py", "serves_properties": sorted(k for k, v in CLAIMED.items() if "TS" in v["engine"]), "kind_free_text": "threadpool.py AST -> transition system -> z3 BMC / induction; settrace replay"},
        ],
        "checks": checks,
        "not_applicable": na,
        "notes": "Exit codes: 0 held, 1 VIOLATION (replayed on the real code), 3 inconclusive (never reported as success). known_findings.json is read-only at run time.",
    }
    with open("/verif/MANIFEST.json", "w") as fp:
        json.dump(manifest, fp, indent=1)
    import jsonschema

    jsonschema.validate(manifest, json.load(open("/root/.vp/MANIFEST.schema.json")))
    print("MANIFEST ok: claimed", [c["property_id"] for c in checks], "n/a", len(na))


NOT_APPLICABLE = {}

if __name__ == "__main__":
    main()
