#!/bin/bash
# re-verify all seeds at the current HEAD, run the seed matrix, then every thorough command once
cd /verif
ls seeded | grep -v MATRIX | xargs -P 3 -n 1 tools/seed_reverify.sh > build/seed_reverify.log 2>&1
tools/seed_matrix.sh quick > build/seed_matrix.out 2>&1
cp /tmp/seed_matrix.log build/seed_matrix.log
tools/thorough_sweep.sh C06 C14 C15 C17 C19 C08 C12 C16 C10 C09 C11 C07 C13 C03 C18 C01 C02 C04 C05 C20
