#!/usr/bin/env python3
"""
seed_rows_merge.py <file with SEEDRUN lines>: merges the outcome lines of tools/seed_run.sh runs
(later lines replace earlier ones of the same seed/check pair) into build/seed_matrix_rows.log and
rewrites seeded/<name>/meta.json ("detected_by") and seeded/MATRIX.md, as tools/seed_matrix.sh does.
"""
import json, re, subprocess, sys, os
ROWS = '/verif/build/seed_matrix_rows.log'
rows = {}
for path in (ROWS, sys.argv[1]):
    if os.path.exists(path):
        for line in open(path):
            m = re.match(r'SEEDRUN (\S+) on (\S+)/(\S+): ', line)
            if m:
                rows[(m.group(1), m.group(2))] = line
open(ROWS, 'w').writelines(rows[k] for k in sorted(rows))
head = subprocess.check_output(['git', '-C', '/repo', 'rev-parse', '--short', 'HEAD'], text=True).strip()
parsed = []
for line in rows.values():
    m = re.match(r'SEEDRUN (\S+) on (\S+)/(\S+): exit=(\d+) (\d+) violations; (.*)', line)
    if m:
        name, prop, tier, rc, nv, _ = m.groups()
        parsed.append((name, prop, tier, int(rc), int(nv)))
by = {}
for name, prop, tier, rc, nv in parsed:
    by.setdefault(name, []).append({"check": prop, "tier": tier, "exit": rc, "violations_reported": nv, "detected": rc == 1, "repo_head": head})
for name, lst in by.items():
    p = '/verif/seeded/%s/meta.json' % name
    if not os.path.exists(p):
        continue
    meta = json.load(open(p))
    meta['detected_by'] = lst
    meta['what_was_run'] = ("tools/seed_run.sh %s <check> quick: scratch worktree of /repo HEAD with patch.diff applied, check pointed at it "
                            "(VERIF_REPO); exit 1 + VIOLATION lines = detected" % name)
    json.dump(meta, open(p, 'w'), indent=1)
with open('/verif/seeded/MATRIX.md', 'w') as fp:
    fp.write("# Seeded changes vs. checks (repo HEAD %s)\n\n| seed | check | tier | exit | VIOLATION lines | detected |\n|---|---|---|---|---|---|\n" % head)
    for name, prop, tier, rc, nv in sorted(parsed):
        fp.write("| %s | %s | %s | %d | %d | %s |\n" % (name, prop, tier, rc, nv, "yes" if rc == 1 else "NO"))
print(len(parsed), 'rows;', sum(1 for r in parsed if r[3] != 1), 'undetected')
