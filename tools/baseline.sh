#!/bin/bash
# Runs the pinned test suite of /repo (or $1) and compares with BASELINE.json's stable_pass list.
R=${1:-/repo}
cd "$R" && /venv/bin/python -m pytest -q -p no:cacheprovider --timeout=900 --continue-on-collection-errors --junitxml=/tmp/_baseline_$$.xml >/dev/null 2>&1
/venv/bin/python - "$$" <<'PY'
import json,sys,xml.etree.ElementTree as ET
base=set(json.load(open('/root/.vp/BASELINE.json'))['stable_pass'])
t=ET.parse('/tmp/_baseline_%s.xml'%sys.argv[1])
ok=set()
for tc in t.iter('testcase'):
    if not any(c.tag in('failure','error','skipped') for c in tc):
        ok.add(tc.get('classname')+'::'+tc.get('name'))
missing=sorted(base-ok)
print('baseline pass %d/%d'%(len(base&ok),len(base)), 'MISSING:' if missing else 'OK', *missing)
sys.exit(1 if missing else 0)
PY
rc=$?; rm -f /tmp/_baseline_$$.xml; exit $rc
