#!/bin/bash
# Runs every seeded change against the check(s) expected to catch it (scratch worktrees),
# records the outcome in seeded/<name>/meta.json ("detected_by") and seeded/MATRIX.md.
cd /verif
TIER=${1:-quick}
PAIRS=""
for d in seeded/*/; do
  n=$(basename $d); p=${n%-*}
  PAIRS="$PAIRS$n $p\n"
done
# seeds that manifest through another property's machinery as well
PAIRS="${PAIRS}C01-2 C09\nC04-2 C09\nC04-2 C10\nC10-2 C09\nC12-1 C10\nC09-4 C11\nC12-4 C11\nC12-3 C17\nC10-5 C09\nC10-6 C09\nC12-5 C13\nC12-6 C09\nC12-6 C10\nC08-4 C13\nC01-6 C08\n"
# SEED_FILTER (regex on "seed check" lines) re-runs only part of the matrix; the other rows are kept
# from build/seed_matrix_rows.log (one line per pair, replaced when the pair is run again)
FILTER=${SEED_FILTER:-.}
mkdir -p build; touch build/seed_matrix_rows.log
printf "$PAIRS" | grep -v "^C01-2 C01$\|^C09-4 C09$" | grep -E "$FILTER" | xargs -P ${SEED_JOBS:-3} -L 1 sh -c 'tools/seed_run.sh $0 $1 '"$TIER"' 2>&1 | tail -1' > /tmp/seed_matrix.log 2>&1
/venv/bin/python - <<'PY'
import re
rows={}
for path in ('/verif/build/seed_matrix_rows.log','/tmp/seed_matrix.log'):
    for line in open(path):
        m=re.match(r'SEEDRUN (\S+) on (\S+)/(\S+): ',line)
        if m: rows[(m.group(1),m.group(2))]=line
open('/verif/build/seed_matrix_rows.log','w').writelines(rows[k] for k in sorted(rows))
open('/tmp/seed_matrix.log','w').writelines(rows[k] for k in sorted(rows))
PY
/venv/bin/python - <<'PY'
import json,re,os,subprocess
head=subprocess.check_output(['git','-C','/repo','rev-parse','--short','HEAD'],text=True).strip()
rows=[]
for line in open('/tmp/seed_matrix.log'):
    m=re.match(r'SEEDRUN (\S+) on (\S+)/(\S+): exit=(\d+) (\d+) violations; (.*)',line)
    if not m: continue
    name,prop,tier,rc,nv,rest=m.groups()
    rows.append((name,prop,tier,int(rc),int(nv)))
by={}
for name,prop,tier,rc,nv in rows:
    by.setdefault(name,[]).append({"check":prop,"tier":tier,"exit":rc,"violations_reported":nv,"detected":rc==1,"repo_head":head})
for name,lst in by.items():
    p='/verif/seeded/%s/meta.json'%name
    meta=json.load(open(p)); meta['detected_by']=lst
    meta['what_was_run']="tools/seed_run.sh %s <check> quick: scratch worktree of /repo HEAD with patch.diff applied, check pointed at it (VERIF_REPO); exit 1 + VIOLATION lines = detected"%name
    json.dump(meta,open(p,'w'),indent=1)
with open('/verif/seeded/MATRIX.md','w') as fp:
    fp.write("# Seeded changes vs. checks (repo HEAD %s)\n\n| seed | check | tier | exit | VIOLATION lines | detected |\n|---|---|---|---|---|---|\n"%head)
    for name,prop,tier,rc,nv in sorted(rows):
        fp.write("| %s | %s | %s | %d | %d | %s |\n"%(name,prop,tier,rc,nv,"yes" if rc==1 else "NO"))
print(len(rows),'rows;', sum(1 for r in rows if r[3]!=1),'undetected')
PY
