#!/bin/bash
# r4_process.sh <PROP> : verify round-4 seeds 5 and 6 delivered in /tmp/r4out/<PROP> and run the quick check against each
P=$1
for N in 5 6; do
  [ -f /tmp/r4out/$P/patch$N.diff ] || { echo "R4 $P-$N: no patch"; continue; }
  /verif/tools/seed_verify.sh /tmp/r4out/$P $N $P $P-$N 2>&1 | grep '^SEED'
  [ -d /verif/seeded/$P-$N ] && /verif/tools/seed_run.sh $P-$N $P quick 2>&1 | grep '^SEEDRUN'
done
