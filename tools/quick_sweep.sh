#!/bin/bash
# Runs every quick command once, sequentially; evidence/<ID>.json is rewritten by each run.
cd /verif; mkdir -p build; : > build/quick_sweep.log
for id in C01 C02 C03 C04 C05 C06 C07 C08 C09 C10 C11 C12 C13 C14 C15 C16 C17 C18 C19 C20; do
  s=$(date +%s); ./check $id > build/quick_$id.log 2>&1; rc=$?
  echo "$id exit=$rc wall=$(( $(date +%s)-s ))s $(grep 'tier=quick' build/quick_$id.log | tail -1)" >> build/quick_sweep.log
done
echo DONE >> build/quick_sweep.log
