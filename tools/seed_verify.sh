#!/bin/bash
# seed_verify.sh <dir with patchN.diff demoN.py noteN.txt> <N> <PROP> [name]
# Confirms a seeded change independently in a scratch worktree of /repo HEAD:
#  demo passes on clean HEAD, fails with the patch, baseline suite passes with the patch.
# On success stores it under /verif/seeded/<name>/.
set -u
SRC=$1; N=$2; PROP=$3; NAME=${4:-$PROP-$N}
WT=/tmp/sv_$$
git -C /repo worktree add -q --detach $WT HEAD || exit 2
cleanup() { git -C /repo worktree remove --force $WT 2>/dev/null; }
trap cleanup EXIT
cd $WT
PYTHONPATH=$WT timeout 120 /venv/bin/python $SRC/demo$N.py >/tmp/sv_clean_$$.log 2>&1; RC_CLEAN=$?
if ! git apply $SRC/patch$N.diff 2>/tmp/sv_apply_$$.log; then
  if ! git apply -3 $SRC/patch$N.diff 2>>/tmp/sv_apply_$$.log; then echo "SEED $NAME: patch does not apply"; cat /tmp/sv_apply_$$.log; exit 2; fi
fi
git diff HEAD -- jsonrpclib > /tmp/sv_patch_$$.diff
PYTHONPATH=$WT timeout 120 /venv/bin/python $SRC/demo$N.py >/tmp/sv_mut_$$.log 2>&1; RC_MUT=$?
BASE=$(PYTHONPATH=$WT /verif/tools/baseline.sh $WT 2>&1 | tail -1)
echo "SEED $NAME: demo clean rc=$RC_CLEAN mutated rc=$RC_MUT; $BASE"
if [ $RC_CLEAN -eq 0 ] && [ $RC_MUT -ne 0 ] && echo "$BASE" | grep -q " OK"; then
  D=/verif/seeded/$NAME; mkdir -p $D
  cp /tmp/sv_patch_$$.diff $D/patch.diff; cp $SRC/demo$N.py $D/demo.py
  /venv/bin/python - "$D" "$PROP" "$SRC/note$N.txt" "$BASE" <<'PY'
import json,sys,subprocess
d,prop,note,base=sys.argv[1:5]
head=subprocess.check_output(['git','-C','/repo','rev-parse','--short','HEAD'],text=True).strip()
meta={"property":prop,"needs_to_manifest":open(note).read().strip(),
 "confirmed":{"repo_head":head,"demo_on_clean_head":"exit 0","demo_with_patch":"exit != 0","baseline_with_patch":base,
 "how":"tools/seed_verify.sh: scratch worktree of /repo HEAD, demo run before/after git apply, pinned pytest suite compared with BASELINE.json stable_pass"},
 "detected_by":None}
json.dump(meta,open(d+'/meta.json','w'),indent=1)
PY
  echo "SEED $NAME: stored"
else
  echo "SEED $NAME: REJECTED"; tail -5 /tmp/sv_clean_$$.log /tmp/sv_mut_$$.log
fi
rm -f /tmp/sv_*_$$.log /tmp/sv_patch_$$.diff
