#!/bin/bash
# Builds /verif/.venv offline: an overlay on /venv (so the editable install of
# /repo is what gets imported) plus crosshair-tool / z3-solver / jsonschema from
# the local wheelhouse.  Idempotent; safe to call from every check.
set -e
cd "$(dirname "$0")"
VENV=/verif/.venv
STAMP=$VENV/.verif-ok
if [ -f "$STAMP" ] && "$VENV/bin/python" -c "import crosshair, z3, jsonrpclib, jsonschema" 2>/dev/null; then
    exit 0
fi
# serialise concurrent builders
exec 9>/verif/.venv.lock
flock 9
if [ -f "$STAMP" ] && "$VENV/bin/python" -c "import crosshair, z3, jsonrpclib, jsonschema" 2>/dev/null; then
    exit 0
fi
rm -rf "$VENV"
/venv/bin/python -m venv "$VENV"
SP=$("$VENV/bin/python" -c "import sysconfig; print(sysconfig.get_paths()['purelib'])")
echo "import site; site.addsitedir('/venv/lib/python3.12/site-packages')" > "$SP/_overlay.pth"
PIP_NO_INDEX=1 "$VENV/bin/pip" install -q --no-index --find-links /opt/veriftools/wheels \
    crosshair-tool z3-solver jsonschema >/dev/null
"$VENV/bin/python" -c "import crosshair, z3, jsonrpclib, jsonschema; assert jsonrpclib.__file__.startswith('/repo/'), jsonrpclib.__file__"
touch "$STAMP"
