"""
Recording HTTP connection / fake response used by the client-side wire harnesses
(C17 emit side, C18).  The real ServerProxy, _Method, dumps, xmlrpc
Transport.request/single_request/parse_response, TransportMixIn.send_request /
send_content / emit_additional_headers and JSONParser/JSONTarget run on top.
"""


class FakeResponse(object):
    def __init__(self, body, status=200, headers=None, chunk=None):
        self.status = status
        self.reason = "OK" if status == 200 else "ERR"
        self.msg = headers or {}
        self._body = body
        self._pos = 0
        self._chunk = chunk
        self.headers = headers or {}

    def getheader(self, name, default=None):
        for key, value in self.headers.items():
            if key.lower() == name.lower():
                return value
        return default

    def read(self, amt=None):
        if amt is None:
            # read() without a size returns everything that is left
            amt = len(self._body)
        elif self._chunk is not None:
            amt = min(amt, self._chunk)
        data = self._body[self._pos:self._pos + amt]
        self._pos += len(data)
        return data

    def close(self):
        pass


class RecordingConnection(object):
    """
    Stands for http.client.HTTPConnection: records what the transport emits.
    """

    def __init__(self, replies):
        self.replies = replies
        self.requests = []  # one dict per request
        self.current = None

    def putrequest(self, method, url, **kwargs):
        self.current = {"method": method, "url": url, "headers": [], "body": b"", "ended": False, "sends": 0}
        self.requests.append(self.current)

    def putheader(self, name, *values):
        self.current["headers"].append((name, values[0] if len(values) == 1 else values))

    def endheaders(self, body=None):
        self.current["ended"] = True
        if body:
            self.send(body)

    def send(self, data):
        self.current["body"] += data
        self.current["sends"] += 1

    def set_debuglevel(self, level):
        pass

    def getresponse(self):
        return self.replies.pop(0)

    def close(self):
        pass
