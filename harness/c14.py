"""
C14 harness: message construction API (dump/dumps/loads, Payload, Fault).

Real code executed: jsonrpc.dump, dumps, loads, load, Payload.request/notify/
response/error, Fault.error/dump/response, jsonclass.dump on plain params.
"""
from harness.stubs import TokenCodec, normalise
import jsonrpclib.jsonrpc as jsonrpc
from jsonrpclib.jsonrpc import Fault
from jsonrpclib.config import Config

P_REQUEST = 100
P_NOTIFY = 101
P_RESPONSE = 102
P_ERROR = 103
P_RAISED = 104
P_LOADS_EMPTY = 105

FRESH = object()


class FakeUUID(object):
    """
    uuid stub: every call returns a value never returned before.
    """

    def __init__(self):
        self.calls = 0

    def uuid4(self):
        self.calls += 1
        return "fresh-id-{0}".format(self.calls)


class PlainBean(object):
    """a value jsonclass.dump turns into a dictionary, but not a parameter container"""

    def __init__(self, a):
        self.a = a


def make_config(shape):
    kind = shape["cfg"]
    if kind == "default":
        return Config()
    if kind == "v1":
        return Config(version=1.0)
    if kind == "v2raw":
        return Config(version=2.0, use_jsonclass=False)
    if kind == "v1raw":
        return Config(version=1.0, use_jsonclass=False)
    raise ValueError(kind)


def build_params(shape, L):
    kind = shape["params"]
    if kind == "list":
        return [L["p1"], L["p2"]]
    if kind == "tuple":
        return (L["p1"], L["p2"])
    if kind == "dict":
        return {"a": L["p1"], "b": L["p2"]}
    if kind == "nested":
        return [[L["p1"]], {"k": (L["p2"],)}, []]
    if kind == "elist":
        return []
    if kind == "etuple":
        return ()
    if kind == "edict":
        return {}
    if kind == "none":
        return None
    if kind == "int":
        return L["p1"]
    if kind == "str":
        return L["p2"]
    if kind == "set":
        return {1, "a"}
    if kind == "fset":
        return frozenset((1, "a"))
    if kind == "bean":
        return PlainBean(L["p1"])
    if kind == "object":
        return object()
    if kind == "fault":
        return Fault(L["fcode"], L["fmsg"], data=None)
    if kind == "fault_data":
        return Fault(L["fcode"], L["fmsg"], data=L["fdata"])
    raise ValueError(kind)


def build_method(shape, L):
    kind = shape["method"]
    if kind == "str":
        return L["m"]
    if kind == "none":
        return None
    if kind == "int":
        return L["p1"]
    raise ValueError(kind)


def build_rpcid(shape, L):
    kind = shape["rpcid"]
    if kind == "none":
        return None
    return L["rid"]


def usable_id(rpcid):
    if isinstance(rpcid, bool):
        return False
    if isinstance(rpcid, str):
        return rpcid != ""
    return isinstance(rpcid, (int, float))


def expected(shape, L, params, method, rpcid, config):
    """
    Oracle written from the property text. Returns ("raise", None) or
    (pass_code, message dict) where an id of FRESH means "generated".
    """
    version = shape["version"]
    if version is None:
        version = config.version
    ver = float(version)
    resp = shape["resp"]
    notify = shape["notify"]
    if params is None and not resp:
        params = []
    is_str = isinstance(method, str)
    container = isinstance(params, (list, tuple, dict))
    if is_str and not (container or isinstance(params, Fault) or (resp and params is None)):
        return "raise", None
    if isinstance(params, Fault):
        err = {"code": params.faultCode, "message": params.faultString}
        if params.data is not None:
            err["data"] = params.data
        msg = {"id": rpcid, "error": err}
        if ver >= 2:
            msg["jsonrpc"] = "2.0"
        else:
            msg["result"] = None
        return P_ERROR, msg
    if not is_str and not resp:
        return "raise", None
    if resp:
        if rpcid is None:
            return "raise", None
        msg = {"id": rpcid, "result": normalise(params)}
        if ver >= 2:
            msg["jsonrpc"] = "2.0"
        else:
            msg["error"] = None
        return P_RESPONSE, msg
    msg = {"method": method}
    nparams = normalise(params)
    if ver >= 2:
        msg["jsonrpc"] = "2.0"
        if len(nparams) > 0:
            msg["params"] = nparams
    else:
        msg["params"] = nparams
    if notify:
        if ver < 2:
            msg["id"] = None
        return P_NOTIFY, msg
    msg["id"] = rpcid if usable_id(rpcid) else FRESH
    return P_REQUEST, msg


def same_json(a, b):
    if isinstance(b, list):
        return isinstance(a, list) and len(a) == len(b) and all(same_json(x, y) for x, y in zip(a, b))
    if isinstance(b, dict):
        if not isinstance(a, dict) or len(a) != len(b):
            return False
        for key in b:
            if key not in a or not same_json(a[key], b[key]):
                return False
        return True
    return type(a) is type(b) and a == b


def call_api(shape, params, method, rpcid, config, codec):
    api = shape["api"]
    version = shape["version"]
    if api == "dump":
        return normalise(
            jsonrpc.dump(params, method, rpcid, version, shape["resp"], shape["notify"], config)
        )
    text = jsonrpc.dumps(
        params,
        method,
        methodresponse=shape["resp"],
        rpcid=rpcid,
        version=version,
        notify=shape["notify"],
        config=config,
    )
    if type(text) is not str:
        return ("not-a-text", text)
    if api == "dumps":
        return codec.table[text]
    # round trip through loads (class translation as configured)
    return jsonrpc.loads(text, config)


def h_dump(shape, L):
    codec = TokenCodec().install()
    fake = FakeUUID()
    jsonrpc.uuid = fake
    config = make_config(shape)
    params = build_params(shape, L)
    method = build_method(shape, L)
    rpcid = build_rpcid(shape, L)
    code, want = expected(shape, L, params, method, rpcid, config)
    try:
        got = call_api(shape, params, method, rpcid, config, codec)
    except (TypeError, ValueError):
        return P_RAISED if code == "raise" else 1
    except Exception:  # noqa
        return 2
    if code == "raise":
        return 3  # emitted a message for an invalid combination
    if not isinstance(got, dict):
        return 4
    if want.get("id") is FRESH:
        gid = got.get("id")
        if type(gid) is not str or gid != "fresh-id-{0}".format(fake.calls) or fake.calls < 1:
            return 5
        # a second message gets another id
        try:
            again = call_api(shape, params, method, rpcid, config, codec)
        except Exception:  # noqa
            return 6
        if again.get("id") == gid:
            return 7
        want = dict(want)
        want["id"] = gid
    if code in (P_REQUEST, P_NOTIFY) and "params" in want and len(want["params"]) == 0:
        # an empty parameter container: the property only demands that the
        # member is present (1.0); [] and {} are both "no arguments"
        if got.get("params") != [] and got.get("params") != {}:
            return 9
        want = dict(want)
        want["params"] = got["params"]
    if not same_json(got, want):
        return 8
    return code


def h_loads_empty(shape, L):
    TokenCodec().install()
    try:
        value = jsonrpc.loads("", make_config(shape))
    except Exception:  # noqa
        return 1
    return P_LOADS_EMPTY if value is None else 2


def h_fault(shape, L):
    """
    Fault.dump / Fault.response / Fault.error
    """
    codec = TokenCodec().install()
    config = make_config(shape)
    data = L["fdata"] if shape["data"] == "int" else None
    rpcid = build_rpcid(shape, L)
    fault = Fault(L["fcode"], L["fmsg"], rpcid=rpcid, config=config, data=data)
    ver = float(shape["version"] or config.version)
    try:
        if shape["api"] == "fault_dump":
            got = fault.dump(version=shape["version"])
        else:
            got = codec.table[fault.response(version=shape["version"])]
        plain = fault.error()
    except Exception:  # noqa
        return 1
    err = {"code": L["fcode"], "message": L["fmsg"]}
    if data is not None:
        err["data"] = data
    want = {"id": rpcid, "error": err}
    if ver >= 2:
        want["jsonrpc"] = "2.0"
    else:
        want["result"] = None
    if not same_json(got, want):
        return 2
    if plain.get("code") != L["fcode"] or plain.get("message") != L["fmsg"] or plain.get("data") != data:
        return 3
    return P_ERROR
