"""
Shared harness of the dispatcher family (C02, C03, C04, C05, C13).

Real code executed: SimpleJSONRPCDispatcher._marshaled_dispatch,
_unmarshaled_dispatch, validate_request, get_version, _marshaled_single_dispatch,
_dispatch, jsonrpc.loads/load/dump, Payload.response/error, Fault.dump/response,
Config.copy, and (client aspects) ServerProxy._request/_run_request,
check_for_errors.

A request body is represented by what the parser does with it (token codec):
either the JSON value built from the obligation's shape with symbolic leaves, or
an exception.  One harness run evaluates one "aspect" (the oracle of one
property); failure codes say which clause failed.
"""
import socket

from harness.stubs import TokenCodec, normalise, Loopback
from harness.jcommon import same_json
import jsonrpclib
import jsonrpclib.jsonrpc as jsonrpc
import jsonrpclib.config as jconfig
import jsonrpclib.SimpleJSONRPCServer as srv
from jsonrpclib.config import Config

PASS = 100

# ---------------------------------------------------------------------------
# value specs: ("absent",) ("const", v) ("leaf", name) ("list", [spec..]) ("dict", {k: spec})


def build(spec, L):
    kind = spec[0]
    if kind == "const":
        return spec[1]
    if kind == "leaf":
        return L[spec[1]]
    if kind == "list":
        return [build(s, L) for s in spec[1]]
    if kind == "dict":
        return {k: build(s, L) for k, s in spec[1].items() if s[0] != "absent"}
    raise ValueError(kind)


# ---------------------------------------------------------------------------
# registry


class BoomError(Exception):
    """a user-defined exception class"""


EXC_TABLE = {
    "ValueError": ValueError,
    "RuntimeError": RuntimeError,
    "KeyError": KeyError,
    "BoomError": BoomError,
    "ZeroDivisionError": ZeroDivisionError,
    "TypeError": TypeError,
    "AttributeError": AttributeError,
}


class BadConv(object):
    """result whose conversion by jsonrpclib.dump fails"""

    def _serialize(self):
        raise RuntimeError("cannot serialise")


class ObservingLog(list):
    """
    Call log that also records what a concurrently served request would see of the
    server's configuration at the moment a callable runs (C13: serving never writes
    the server's Config, not even for the duration of a call)
    """

    observer = None

    def append(self, item):
        list.append(self, item)
        if self.observer is not None:
            self.seen.append(self.observer())


class Registry(object):
    """
    Recording callables.  log: list of (name, args, kwargs)
    """

    def __init__(self, L, shape):
        self.log = ObservingLog()
        self.log.seen = []
        self.L = L
        self.shape = shape

    def echo(self, *args, **kwargs):
        self.log.append(("echo", args, kwargs))
        return [list(args), kwargs]

    def add2(self, a, b):
        self.log.append(("add2", (a, b), {}))
        return [a, b]

    def opt(self, a, b=5):
        self.log.append(("opt", (a, b), {}))
        return [a, b]

    def boom(self, *args, **kwargs):
        self.log.append(("boom", args, kwargs))
        raise EXC_TABLE[self.shape.get("exc", "ValueError")](self.L["msg"])

    def retv(self, *args, **kwargs):
        self.log.append(("retv", args, kwargs))
        return result_value(self.shape, self.L)

    def badconv(self, *args, **kwargs):
        self.log.append(("badconv", args, kwargs))
        return BadConv()

    def wrapped(self, *args, **kwargs):
        # an ordinary pass-through decorator around add2: a mismatch surfaces one frame below the callable
        return self.add2(*args, **kwargs)

    def retfault(self, *args, **kwargs):
        # returns (does not raise) an error object it built itself, with the default configuration
        self.log.append(("retfault", args, kwargs))
        return jsonrpc.Fault(-32050, "custom fault")

    def install(self, dispatcher):
        for name in ("echo", "add2", "opt", "boom", "retv", "badconv", "retfault", "wrapped"):
            dispatcher.register_function(getattr(self, name), name)
        # names that look like attributes of dict / the dispatcher / dotted
        dispatcher.register_function(self.echo, "keys")
        dispatcher.register_function(self.echo, "a.b")
        dispatcher.register_function(self.echo, "méthode x")


def result_value(shape, L):
    kind = shape.get("ret", "leaf")
    table = {"none": None, "false": False, "zero": 0, "fzero": 0.0, "empty": "", "elist": [], "edict": {}}
    if kind in table:
        return table[kind]
    if kind == "list":
        return [L["rv"], [], {"k": L["rv"]}]
    if kind == "tuple":
        return (L["rv"], (L["rv"],))
    return L["rv"]


class Nested(object):
    def __init__(self, reg):
        self._reg = reg

    def deep(self, x):
        self._reg.log.append(("nested.deep", (x,), {}))
        return [x]

    def _hid(self, x):
        self._reg.log.append(("nested._hid", (x,), {}))
        return "hidden"


class Inst(object):
    """registered instance with public, private and nested attributes"""

    def __init__(self, reg):
        self._reg = reg
        self.nested = Nested(reg)
        self._private_obj = Nested(reg)

    def pub(self, x):
        self._reg.log.append(("pub", (x,), {}))
        return [x]

    def _priv(self, x):
        self._reg.log.append(("_priv", (x,), {}))
        return "private"

    def __dunder__(self, x):
        self._reg.log.append(("__dunder__", (x,), {}))
        return "dunder"


class InstWithDispatch(object):
    """registered instance with its own _dispatch"""

    def __init__(self, reg):
        self._reg = reg

    def _dispatch(self, method, params):
        self._reg.log.append(("inst._dispatch", (method,), {}))
        if method == "known":
            return ["via-instance", params]
        raise ValueError("no such instance method")


class RecordingPool(object):
    """
    Stand-in for a ThreadPool: records enqueue(method, *args); its contract
    ("every accepted task runs exactly once") is property C09.
    """

    def __init__(self):
        self.tasks = []

    def enqueue(self, method, *args, **kwargs):
        self.tasks.append((method, args, kwargs))
        return None

    def start(self):
        pass

    def stop(self):
        pass


# ---------------------------------------------------------------------------
# dispatcher construction

_open_servers = []


def make_dispatcher(shape, config):
    kind = shape.get("server", "bare")
    if kind == "bare":
        return srv.SimpleJSONRPCDispatcher(config=config)
    if kind == "simple":
        server = srv.SimpleJSONRPCServer(("localhost", 0), bind_and_activate=False, logRequests=False, config=config)
    else:
        server = srv.PooledJSONRPCServer(
            ("localhost", 0), bind_and_activate=False, logRequests=False, config=config, thread_pool=RecordingPool()
        )
    _open_servers.append(server)
    return server


def close_servers():
    while _open_servers:
        server = _open_servers.pop()
        try:
            server.socket.close()
        except Exception:  # noqa
            pass


def make_config(shape):
    version = shape.get("sver", 2.0)
    return Config(version=version, use_jsonclass=shape.get("jsonclass", True))


def config_snapshot(config):
    return (
        config.version,
        config.use_jsonclass,
        config.content_type,
        config.user_agent,
        config.serialize_method,
        config.ignore_attribute,
        dict(config.classes),
        dict(config.serialize_handlers),
        id(config.classes),
        id(config.serialize_handlers),
    )


# ---------------------------------------------------------------------------
# oracle (from the property texts)

KNOWN_FUNCS = ("echo", "add2", "opt", "boom", "retv", "badconv", "retfault", "wrapped", "keys", "a.b", "méthode x")


def classify(entry):
    """
    ('invalid', id) | ('call', id, is_notification, method, params)
    """
    if not isinstance(entry, dict):
        return ("invalid", None)
    has_version = "jsonrpc" in entry
    has_id = "id" in entry
    rid = entry["id"] if has_id else None
    if not has_version and not has_id:
        return ("invalid", None)
    method = entry.get("method", None)
    params = entry["params"] if "params" in entry else []
    if not isinstance(method, str) or method == "" or not isinstance(params, (list, dict)):
        return ("invalid", rid)
    notif = (not has_id) or rid is None or (isinstance(rid, str) and rid == "")
    return ("call", rid, notif, method, params)


def arity_ok(method, params):
    if method in ("echo", "boom", "retv", "badconv", "retfault", "keys", "a.b", "méthode x"):
        return True
    if method in ("add2", "wrapped"):
        if isinstance(params, list):
            return len(params) == 2
        return set(params) == {"a", "b"}
    if method == "opt":
        if isinstance(params, list):
            return len(params) in (1, 2)
        return set(params) in ({"a"}, {"a", "b"})
    return True


def call_outcome(shape, L, method, params):
    """
    Expected outcome of a valid call with the function registry:
    ('result', value) | ('error', code)
    and the expected log entry (or None)
    """
    custom = shape.get("custom")
    if custom == "returns":
        return ("result", ["custom", method, normalise(params)]), None
    if custom == "raises":
        return ("error", -32603), None
    if method not in KNOWN_FUNCS:
        inst = shape.get("instance")
        if inst == "plain":
            if any(seg.startswith("_") for seg in method.split(".")):
                return ("error", -32601), None
            if method in ("pub", "nested.deep"):
                if isinstance(params, list):
                    if len(params) != 1:
                        return ("error", -32602), None
                    x = params[0]
                else:
                    if set(params) != {"x"}:
                        return ("error", -32602), None
                    x = params["x"]
                return ("result", [x]), (method, (x,), {})
            return ("error", -32601), None
        if inst == "dispatching":
            if method == "known":
                return ("result", ["via-instance", normalise(params)]), ("inst._dispatch", (method,), {})
            return ("error", -32603), ("inst._dispatch", (method,), {})
        return ("error", -32601), None
    if not arity_ok(method, params):
        return ("error", -32602), None
    if isinstance(params, list):
        args, kwargs = tuple(params), {}
    else:
        args, kwargs = (), dict(params)
    if method in ("echo", "keys", "a.b", "méthode x"):
        return ("result", [list(args), kwargs]), ("echo", args, kwargs)
    if method in ("add2", "opt", "wrapped"):
        if kwargs:
            a, b = kwargs["a"], kwargs.get("b", 5)
        else:
            a, b = args[0], (args[1] if len(args) > 1 else 5)
        return ("result", [a, b]), ("add2" if method == "wrapped" else method, (a, b), {})
    if method == "boom":
        return ("error", -32603), ("boom", args, kwargs)
    if method == "retv":
        return ("result", normalise(result_value(shape, L))), ("retv", args, kwargs)
    if method == "badconv":
        return ("error", -32603), ("badconv", args, kwargs)
    if method == "retfault":
        return ("error", -32050), ("retfault", args, kwargs)
    raise ValueError(method)


PADS = [("\x0c", ""), ("", "\xa0"), ("\x0b", "\x0b"), ("", "\x1c"), ("\u2028", ""), ("\u3000", "\u3000"), ("\x85", ""), ("\ufeff", "")]
BLANKS = [" ", "\r\n", "\t", "\n \n"]


def expected_replies(shape, L, request):
    """
    Returns (list of expected reply descriptors, list of expected log entries).
    descriptor: dict(id=, kind='result'|'error', value=|code=, form=1|2|None, entry=index)
    """
    sver = float(shape.get("sver", 2.0))
    if shape.get("parse") in ("raises", "padded", "blank"):
        return [dict(id=None, kind="error", code=-32700, form=None, entry=None)], [], "single"
    if not request:
        return [dict(id=None, kind="error", code=-32600, form=None, entry=None)], [], "single"
    batch = isinstance(request, list)
    entries = request if batch else [request]
    replies = []
    logs = []
    for index, entry in enumerate(entries):
        info = classify(entry)
        if info[0] == "invalid":
            replies.append(dict(id=info[1], kind="error", code=-32600, form=None, entry=index))
            continue
        _, rid, notif, method, params = info
        outcome, log = call_outcome(shape, L, method, params)
        if log is not None:
            logs.append(log)
        if notif:
            continue
        form = 2 if ("jsonrpc" in entry and sver >= 2) else 1
        if outcome[0] == "result":
            replies.append(dict(id=rid, kind="result", value=outcome[1], form=form, entry=index))
        else:
            replies.append(dict(id=rid, kind="error", code=outcome[1], form=form, entry=index, method=method))
    return replies, logs, ("batch" if batch else "single")


# ---------------------------------------------------------------------------
# well-formedness (C02)


def wf_error(err):
    if type(err) is not dict:
        return False
    if "code" not in err or "message" not in err:
        return False
    code = err["code"]
    if isinstance(code, bool) or not isinstance(code, int):
        return False
    return isinstance(err["message"], str)


def wf_response(obj):
    if type(obj) is not dict:
        return False
    if "jsonrpc" in obj:
        if obj["jsonrpc"] != "2.0" or "id" not in obj:
            return False
        has_r = "result" in obj
        has_e = "error" in obj
        if has_r == has_e:
            return False
        for key in obj:
            if key not in ("jsonrpc", "id", "result", "error"):
                return False
        return wf_error(obj["error"]) if has_e else True
    if len(obj) != 3 or "result" not in obj or "error" not in obj or "id" not in obj:
        return False
    if obj["error"] is None:
        return True
    return obj["result"] is None and wf_error(obj["error"])


def form_of(obj):
    return 2 if "jsonrpc" in obj else 1


# ---------------------------------------------------------------------------
# the run


class Run(object):
    pass


def run_dispatch(shape, L, request_spec=None, dispatcher=None, registry=None, codec=None):
    """
    Executes one body on a (fresh or given) dispatcher.
    """
    run = Run()
    run.codec = codec or TokenCodec().install()
    run.config = dispatcher.json_config if dispatcher is not None else make_config(shape)
    run.dispatcher = dispatcher or make_dispatcher(shape, run.config)
    if registry is None:
        registry = Registry(L, shape)
        registry.install(run.dispatcher)
        inst = shape.get("instance")
        if inst == "plain":
            run.dispatcher.register_instance(Inst(registry))
        elif inst == "dispatching":
            run.dispatcher.register_instance(InstWithDispatch(registry))
        if shape.get("pool"):
            run.pool = RecordingPool()
            run.dispatcher.set_notification_pool(run.pool)
    run.registry = registry
    run.pool = getattr(run, "pool", None)
    spec = request_spec if request_spec is not None else shape["request"]
    run.request = build(spec, L)
    run.cfg_before = config_snapshot(run.config)
    run.default_before = config_snapshot(jconfig.DEFAULT)
    if isinstance(registry.log, ObservingLog):
        registry.log.seen = []
        registry.log.observer = lambda: (config_snapshot(run.dispatcher.json_config), config_snapshot(jconfig.DEFAULT))
    run.attrs_before = dict(run.dispatcher.__dict__)
    run.funcs_before = dict(run.dispatcher.funcs)
    custom = None
    if shape.get("custom") == "returns":
        def custom(method, params):  # noqa
            registry.log.append(("custom", (method,), {}))
            return ["custom", method, params]
    elif shape.get("custom") == "raises":
        def custom(method, params):  # noqa
            registry.log.append(("custom", (method,), {}))
            raise EXC_TABLE[shape.get("exc", "ValueError")](L["msg"])
    run.custom = custom
    if shape.get("parse") == "raises":
        run.codec.raise_on_load = EXC_TABLE[shape.get("exc", "ValueError")](L["msg"])
        text = "@body@"
    elif shape.get("parse") == "padded":
        # a well-formed text next to a character that is blank for str.strip() but not for RFC 8259
        before, after = PADS[shape["pad"]]
        text = before + run.codec.text_of(run.request) + after
    elif shape.get("parse") == "blank":
        text = BLANKS[shape["pad"]]
    else:
        text = run.codec.text_of(run.request)
    run.text = text
    try:
        run.raw = run.dispatcher._marshaled_dispatch(text, custom)
        run.raised = None
    except Exception as ex:  # noqa
        run.raw = None
        run.raised = ex
    run.codec.raise_on_load = None
    run.reply = None
    if run.raw not in (None, "") and type(run.raw) is str and run.raw in run.codec.table:
        run.reply = run.codec.table[run.raw]
    # drain a recording notification pool: run each recorded task once
    run.pool_outcomes = []
    if run.pool is not None:
        for method, args, kwargs in run.pool.tasks:
            try:
                run.pool_outcomes.append(("ret", method(*args, **kwargs)))
            except Exception as ex:  # noqa
                run.pool_outcomes.append(("exc", ex))
    return run


def reply_objects(run):
    """
    list of response objects, or None if the output is not of the allowed form
    """
    if run.raised is not None or type(run.raw) is not str:
        return None
    if run.raw == "":
        return []
    if run.reply is None:
        return None
    if type(run.reply) is list:
        if len(run.reply) == 0:
            return None
        return run.reply
    return [run.reply]


# ---------------------------------------------------------------------------
# aspects


def aspect_c02(shape, L, run):
    objs = reply_objects(run)
    if run.raised is not None:
        return 10
    if objs is None:
        return 11
    for obj in objs:
        if not wf_response(obj):
            return 12
    return PASS if objs else PASS + 1


def aspect_c03(shape, L, run):
    objs = reply_objects(run)
    if objs is None:
        return 20
    want, _, mode = expected_replies(shape, L, run.request)
    if len(objs) != len(want):
        return 21
    if mode == "batch" and objs and type(run.reply) is not list:
        return 22
    if mode == "single" and type(run.reply) is list:
        return 23
    for obj, exp in zip(objs, want):
        if type(obj) is not dict or "id" not in obj:
            return 24
        if not same_json(obj["id"], exp["id"]):
            return 25
        if exp["kind"] == "result":
            if obj.get("error") is not None or "result" not in obj:
                return 26
        else:
            err = obj.get("error")
            if type(err) is not dict:
                return 27
    return PASS if objs else PASS + 1


def aspect_c04(shape, L, run):
    """
    notifications: never answered, executed exactly once (inline or via the pool)
    """
    objs = reply_objects(run)
    if objs is None:
        return 30
    want, logs, _ = expected_replies(shape, L, run.request)
    if len(objs) != len(want):
        return 31
    for obj, exp in zip(objs, want):
        if type(obj) is not dict or not same_json(obj.get("id"), exp["id"]):
            return 32
    # exactly-once execution of every valid entry (notifications included)
    got = run.registry.log
    if shape.get("custom"):
        entries = run.request if isinstance(run.request, list) else [run.request]
        ncalls = sum(1 for e in entries if classify(e)[0] == "call")
        if len([g for g in got if g[0] == "custom"]) != ncalls:
            return 33
    else:
        if len(got) != len(logs):
            return 34
        # inline entries run in order; pooled notifications run when drained (afterwards)
        if run.pool is None:
            for g, w in zip(got, logs):
                if not same_call(g, w):
                    return 35
        else:
            rest = list(got)
            for w in logs:
                for i, g in enumerate(rest):
                    if same_call(g, w):
                        del rest[i]
                        break
                else:
                    return 36
    if run.pool is not None:
        entries = run.request if isinstance(run.request, list) else [run.request]
        nnotif = sum(1 for e in entries if classify(e)[0] == "call" and classify(e)[2])
        if len(run.pool.tasks) != nnotif:
            return 37
    return PASS if objs else PASS + 1


def same_call(got, want):
    if got[0] != want[0]:
        return False
    return same_json(list(got[1]), list(want[1])) and same_json(got[2], want[2])


def aspect_c05(shape, L, run):
    objs = reply_objects(run)
    if objs is None:
        return 40
    want, logs, _ = expected_replies(shape, L, run.request)
    if len(objs) != len(want):
        return 41
    for obj, exp in zip(objs, want):
        if type(obj) is not dict:
            return 42
        if exp["kind"] == "error":
            err = obj.get("error")
            if type(err) is not dict or err.get("code") != exp["code"] or type(err.get("code")) is not int:
                return 43
            if exp["code"] == -32603 and not shape.get("custom") and exp.get("method") == "boom":
                exc = EXC_TABLE[shape.get("exc", "ValueError")](L["msg"])
                message = err.get("message")
                if type(message) is not str or type(exc).__name__ not in message or str(exc) not in message:
                    return 44
        else:
            if obj.get("error") is not None or not same_json(obj.get("result"), exp["value"]):
                return 45
    # rejected requests run nothing; accepted ones run exactly what was asked
    got = [g for g in run.registry.log]
    if len(got) != len(logs):
        return 46
    for g, w in zip(got, logs):
        if not same_call(g, w):
            return 47
    return PASS if objs else PASS + 1


def aspect_c13(shape, L, run):
    objs = reply_objects(run)
    if objs is None:
        return 50
    want, _, _ = expected_replies(shape, L, run.request)
    if len(objs) != len(want):
        return 51
    for obj, exp in zip(objs, want):
        if type(obj) is not dict:
            return 52
        if exp["form"] is not None and form_of(obj) != exp["form"]:
            return 53
        if form_of(obj) == 2 and obj.get("jsonrpc") != "2.0":
            return 54
    if config_snapshot(run.config) != run.cfg_before:
        return 55
    if config_snapshot(jconfig.DEFAULT) != run.default_before:
        return 56
    if run.dispatcher.json_config is not run.config:
        return 57
    # ... and not for the duration of a call either: what a request served meanwhile by
    # another thread would read while one of this request's callables runs
    for seen_cfg, seen_default in getattr(run.registry.log, "seen", ()):
        if seen_cfg != run.cfg_before or seen_default != run.default_before:
            return 60
    # requests may only share state nobody writes: no attribute of the dispatcher is
    # re-bound by serving a request, and no Config object is published on it (a
    # per-request configuration cached there would be visible, half-initialised,
    # to a concurrent request).  Other new attributes (benign caches) are not judged.
    after = dict(run.dispatcher.__dict__)
    for key, value in run.attrs_before.items():
        if key not in after or after[key] is not value:
            return 58
    for key, value in after.items():
        if key not in run.attrs_before and isinstance(value, Config):
            return 58
    if run.dispatcher.funcs != run.funcs_before:
        return 59
    return PASS if objs else PASS + 1


ASPECTS = {"C02": aspect_c02, "C03": aspect_c03, "C04": aspect_c04, "C05": aspect_c05, "C13": aspect_c13}


MSG_TABLE = ("something bad", "", "m", 'h\u00e9 {0} {x} %s "q" \'s\'', "two words", "{", "1")


def with_msg(shape, L):
    """
    Exception messages come from a table chosen by the shape: any string that
    flows into str.format() is realised by CrossHair and would never exhaust.
    """
    if "msg" in L:
        return L
    L = dict(L)
    L["msg"] = MSG_TABLE[shape.get("msg", 0)]
    return L


def h_dispatch(shape, L):
    """
    Entry point of the generated obligations.
    """
    try:
        L = with_msg(shape, L)
        run = run_dispatch(shape, L)
        return ASPECTS[shape["aspect"]](shape, L, run)
    finally:
        close_servers()


def h_client(shape, L):
    """
    C05 client side: the same request sent through ServerProxy over the loopback
    transport surfaces the failure as plain ProtocolError carrying the code.
    """
    try:
        L = with_msg(shape, L)
        codec = TokenCodec().install()
        config = make_config(shape)
        dispatcher = make_dispatcher(shape, config)
        registry = Registry(L, shape)
        registry.install(dispatcher)
        if shape.get("instance") == "plain":
            dispatcher.register_instance(Inst(registry))
        elif shape.get("instance") == "dispatching":
            dispatcher.register_instance(InstWithDispatch(registry))
        transport = Loopback(dispatcher)
        proxy = jsonrpc.ServerProxy("http://h/", transport=transport, config=config, version=shape.get("cver"))
        params = build(shape["params"], L)
        method = shape["method"]
        want, log = call_outcome(shape, L, method, normalise(params))
        if shape.get("parse") == "raises":
            # the server's parser rejects the body; the client's parser works
            real_loads = codec.loads
            state = {"n": 0}

            def flaky(text):
                state["n"] += 1
                if state["n"] == 1:
                    raise ValueError("Expecting value")
                return real_loads(text)

            jsonrpc.jloads = flaky
            jsonrpclib.jloads = flaky
            want, log = ("error", -32700), None
        try:
            value = proxy._request(method, params)
        except jsonrpc.ProtocolError as ex:
            if want[0] != "error":
                return 60
            arg = ex.args[0]
            if type(arg) is not tuple or len(arg) != 2 or arg[0] != want[1] or type(arg[1]) is not str:
                return 61
            if type(ex) is not jsonrpc.ProtocolError:
                return 62
            if (log is None) != (len(registry.log) == 0):
                return 66
            return PASS + 2
        except Exception:  # noqa
            return 63
        if want[0] == "error":
            return 64
        if len(registry.log) != 1 or not same_call(registry.log[0], log):
            return 67
        return PASS if same_json(value, want[1]) else 65
    finally:
        close_servers()


def h_client_notify(shape, L):
    """
    C04 client side: proxy._notify.m(...) returns None and emits the notification
    form of its version; the callable runs exactly once.
    """
    try:
        L = with_msg(shape, L)
        codec = TokenCodec().install()
        config = make_config(shape)
        dispatcher = make_dispatcher(shape, config)
        registry = Registry(L, shape)
        registry.install(dispatcher)
        transport = Loopback(dispatcher)
        cver = shape.get("cver")
        proxy = jsonrpc.ServerProxy("http://h/", transport=transport, config=config, version=cver)
        params = build(shape["params"], L)
        method = shape["method"]
        try:
            if isinstance(params, dict):
                value = getattr(proxy._notify, method)(**params)
            else:
                value = getattr(proxy._notify, method)(*params)
        except Exception:  # noqa
            return 70
        if value is not None:
            return 71
        if len(transport.log) != 1:
            return 72
        sent = codec.table.get(transport.log[0][2])
        if type(sent) is not dict or sent.get("method") != method:
            return 73
        ver = float(cver or config.version)
        if ver >= 2:
            if "id" in sent or sent.get("jsonrpc") != "2.0":
                return 74
        else:
            if "id" not in sent or sent["id"] is not None or "jsonrpc" in sent:
                return 75
        if transport.log[0][3] != "":
            return 76
        want, log = call_outcome(shape, L, method, normalise(params))
        if log is None:
            return PASS + 1 if not registry.log else 77
        if len(registry.log) != 1 or not same_call(registry.log[0], log):
            return 78
        return PASS
    finally:
        close_servers()


def h_history(shape, L):
    """
    C13: the reply to r2 after r1 on the same dispatcher equals the reply to r2
    on a fresh dispatcher; nothing r1 did is remembered.
    """
    try:
        L = with_msg(shape, L)
        first = run_dispatch(shape, L, request_spec=shape["r1"])
        second = run_dispatch(
            shape, L, request_spec=shape["r2"], dispatcher=first.dispatcher, registry=first.registry, codec=first.codec
        )
        fresh = run_dispatch(shape, L, request_spec=shape["r2"])
        if second.raised is not None or fresh.raised is not None:
            return 80
        if (second.raw == "") != (fresh.raw == ""):
            return 81
        if not same_json(second.reply, fresh.reply):
            return 82
        code = aspect_c13(shape, L, second)
        if code < PASS:
            return code
        if config_snapshot(first.config) != first.cfg_before:
            return 83
        return PASS
    finally:
        close_servers()


COPY_FIELDS = ("version", "use_jsonclass", "content_type", "user_agent", "serialize_method", "ignore_attribute")


def h_copy(shape, L):
    """
    C13: Config.copy() -- mutating one side leaves the other side untouched.
    """
    original = Config(version=shape.get("sver", 2.0), use_jsonclass=shape.get("jsonclass", True))
    original.classes.add(BadConv)
    original.serialize_handlers[BadConv] = None
    copy = original.copy()
    for field in COPY_FIELDS:
        if getattr(copy, field) != getattr(original, field):
            return 90
    if copy.classes != original.classes or copy.serialize_handlers != original.serialize_handlers:
        return 91
    victim, other = (copy, original) if shape["side"] == "copy" else (original, copy)
    before = config_snapshot(other)
    what = shape["what"]
    value = L["val"]
    if what in COPY_FIELDS:
        setattr(victim, what, value)
    elif what == "classes_add":
        # (item assignment: Config.copy() returns the class table as a plain
        # dict without LocalClasses.add -- a usability wart outside C13's claim)
        victim.classes["Other"] = Registry
    elif what == "classes_set":
        victim.classes["BadConv"] = value
    elif what == "classes_del":
        del victim.classes["BadConv"]
    elif what == "handlers_set":
        victim.serialize_handlers[int] = value
    elif what == "handlers_replace":
        victim.serialize_handlers[BadConv] = value
    elif what == "handlers_del":
        del victim.serialize_handlers[BadConv]
    else:
        raise ValueError(what)
    if config_snapshot(other) != before:
        return 92
    if other.classes is victim.classes or other.serialize_handlers is victim.serialize_handlers:
        return 93
    return PASS
