"""
C17 harness: wire framing is exact and body reassembly is independent of chunking.

Real code executed: TransportMixIn.send_content / send_request /
emit_additional_headers, utils.to_bytes/from_bytes, ServerProxy.__init__ /
_run_request (URL handling, through the real urlparse), xmlrpc
Transport.request/single_request/parse_response with JSONParser/JSONTarget,
SimpleJSONRPCRequestHandler.do_POST, CGIJSONRPCRequestHandler.handle_jsonrpc.
"""
import gzip
import io
import sys

import harness.stubs  # noqa: F401
from harness.wire import FakeResponse, RecordingConnection
import jsonrpclib.jsonrpc as jsonrpc
import jsonrpclib.SimpleJSONRPCServer as srv
from jsonrpclib.config import Config

PASS = 100

TEXTS = (
    "",
    '{"id": 1}',
    '{"k": "é"}',
    '["€", "é€"]',
    '"\U0001f600"',
    '["xé€\U0001f600y"]',
    "é",
    "\U0001f600\U0001f600",
)


def h_emit_bytes(shape, body, ctype):
    """
    send_content with an arbitrary byte body and content type.
    """
    config = Config(content_type=ctype, user_agent="ua")
    transport = jsonrpc.Transport(config)
    if shape.get("custom"):
        transport.push_headers({"Content-Length": "999", "content-type": "text/evil", "X-K": "v"})
    conn = RecordingConnection([])
    conn.putrequest("POST", "/")
    try:
        transport.send_content(conn, body)
    except Exception:  # noqa
        return 1
    return check_emitted(conn.current, body, ctype)


def check_emitted(req, body_bytes, ctype):
    lengths = [v for k, v in req["headers"] if k.lower() == "content-length"]
    ctypes = [v for k, v in req["headers"] if k.lower() == "content-type"]
    if lengths != [str(len(req["body"]))]:
        return 2
    if req["body"] != body_bytes:
        return 3
    if ctypes != [ctype]:
        return 4
    if not req["ended"]:
        return 5
    return PASS


def h_emit_text(shape, ctype):
    """
    A text body (table: ASCII and 2-, 3-, 4-byte characters, empty): the bytes
    sent are its UTF-8 encoding and Content-Length counts bytes, not characters.
    Runs the whole client path: Transport.request -> single_request.
    """
    text = TEXTS[shape["text"]]
    config = Config(content_type=ctype, user_agent="ua")
    transport = jsonrpc.Transport(config)
    conn = RecordingConnection([FakeResponse(b"")])
    transport.make_connection = lambda host: conn
    try:
        transport.request("h", "/p", text)
    except Exception:  # noqa
        return 1
    return check_emitted(conn.requests[0], text.encode("utf-8"), ctype)


def h_url(shape, path, query):
    """
    Request target = path + '?' + query, '/' when the path is empty; for unix+http
    always '/' (+ query).
    """
    scheme = shape["scheme"]
    uri = scheme + "://host" + shape.get("prefix", "") + path
    if shape["has_query"]:
        uri += "?" + query
    calls = []

    class T(object):
        def push_headers(self, headers):
            pass

        def request(self, host, handler, body, verbose=0):
            calls.append((host, handler))
            return ""

    try:
        proxy = jsonrpc.ServerProxy(uri, transport=T(), config=Config())
        proxy._run_request("x")
    except Exception:  # noqa
        return 1
    if len(calls) != 1:
        return 2
    full_path = shape.get("prefix", "") + path
    if scheme.startswith("unix+"):
        want = "/"
    else:
        want = full_path if full_path else "/"
    if shape["has_query"] and query:
        want = want + "?" + query
    return PASS if calls[0][1] == want and calls[0][0] == "host" else 3


def h_scheme(shape, path):
    """
    Unsupported schemes are rejected when the proxy is built.
    """
    scheme = shape["scheme"]
    uri = (scheme + "://host" + path) if scheme else ("host" + path)
    try:
        jsonrpc.ServerProxy(uri, transport=None if shape["expect"] == "reject" else object.__new__(Dummy), config=Config())
    except (IOError, OSError):
        return PASS + 1 if shape["expect"] == "reject" else 1
    except Exception:  # noqa
        return 2
    return PASS if shape["expect"] == "accept" else 3


class Dummy(object):
    def push_headers(self, headers):
        pass


def h_target_chunks(shape, c1, c2):
    """
    JSONTarget: three feeds at two arbitrary split points.
    """
    body = TEXTS[shape["text"]].encode("utf-8")
    target = jsonrpc.JSONTarget()
    parser = jsonrpc.JSONParser(target)
    parser.feed(body[:c1])
    parser.feed(body[c1:c2])
    parser.feed(body[c2:])
    parser.close()
    try:
        out = target.close()
    except Exception:  # noqa
        return 1
    return PASS if out == TEXTS[shape["text"]] else 2


def h_response_chunks(shape, chunk):
    """
    Transport.parse_response over a response whose read() returns at most
    `chunk` bytes at a time; identity or gzip encoding; optional padding so
    that a multi-byte character straddles the parser's 1024-byte reads.
    """
    text = " " * shape.get("pad", 0) + TEXTS[shape["text"]]
    raw = text.encode("utf-8")
    headers = {}
    if shape.get("gzip"):
        buf = io.BytesIO()
        with gzip.GzipFile(fileobj=buf, mode="wb", mtime=0) as gz:
            gz.write(raw)
        raw = buf.getvalue()
        headers["Content-Encoding"] = "gzip"
    transport = jsonrpc.Transport(Config())
    response = FakeResponse(raw, headers=headers, chunk=chunk)
    try:
        out = transport.parse_response(response)
    except Exception:  # noqa
        return 1
    return PASS if out == text else 2


class Handler(srv.SimpleJSONRPCRequestHandler):
    """
    do_POST on a handler built without a socket: recording send_* methods.
    """

    def __init__(self):  # noqa
        self.status = None
        self.sent_headers = []
        self.ended = False

    def send_response(self, code, message=None):
        self.status = code

    def send_header(self, key, value):
        self.sent_headers.append((key, value))

    def end_headers(self):
        self.ended = True

    def report_404(self):
        self.status = 404


class ShortReader(object):
    """
    rfile whose reads return fewer bytes than asked (within the contract of
    read(): at least one byte while data remains), at the given cut points.
    """

    def __init__(self, data, cuts):
        self.data = data
        self.pos = 0
        self.cuts = list(cuts)
        self.empty_reads = 0

    def read(self, n=-1):
        if n is None or n < 0:
            n = len(self.data) - self.pos
        end = min(self.pos + n, len(self.data))
        for cut in self.cuts:
            if self.pos < cut < end:
                end = cut
                break
        out = self.data[self.pos:end]
        self.pos = end
        if not out and n:
            # end of stream: a caller that keeps asking is spinning
            self.empty_reads += 1
            if self.empty_reads > 3:
                raise RuntimeError("request handler keeps reading at end of stream")
        return out


class FakeServer(object):
    def __init__(self, reply, config):
        self.reply = reply
        self.json_config = config
        self.seen = []

    def _marshaled_dispatch(self, data, dispatch_method=None, path=None):
        self.seen.append(data)
        if isinstance(self.reply, Exception):
            raise self.reply
        return self.reply


def h_do_post(shape, c1, c2, ctype):
    text = TEXTS[shape["text"]]
    body = text.encode("utf-8")
    reply = TEXTS[shape["reply"]] if shape.get("reply") is not None else None
    if shape.get("raises"):
        reply = ValueError("dispatcher failed")
    config = Config(content_type=ctype)
    handler = Handler()
    handler.server = FakeServer(reply, config)
    handler.path = "/"
    handler.rpc_paths = ()
    handler.headers = {"content-length": str(len(body) + shape.get("missing", 0))}
    handler.rfile = ShortReader(body, [c1, c2])
    handler.wfile = io.BytesIO()
    try:
        handler.do_POST()
    except Exception:  # noqa
        return 1
    sent = handler.wfile.getvalue()
    lengths = [v for k, v in handler.sent_headers if k.lower() == "content-length"]
    ctypes = [v for k, v in handler.sent_headers if k.lower() == "content-type"]
    if lengths != [str(len(sent))] or not handler.ended:
        return 2
    if ctypes != [ctype]:
        return 3
    if shape.get("raises"):
        return PASS + 1 if handler.status == 500 and b"-32603" in sent else 4
    if handler.server.seen != [text]:
        return 5  # the dispatcher did not get the decoding of the whole body
    if handler.status != 200:
        return 6
    want = (reply or "").encode("utf-8")
    return PASS if sent == want else 7


CTYPES = ("application/json-rpc", "application/json", "a/b", "")


def h_cgi(shape):
    ctype = CTYPES[shape["ctype"]]
    text = TEXTS[shape["reply"]]
    config = Config(content_type=ctype)
    handler = srv.CGIJSONRPCRequestHandler(config=config)
    handler._marshaled_dispatch = lambda request_text: text
    raw = io.BytesIO()
    fake = io.TextIOWrapper(raw, encoding="utf-8", newline="\n", write_through=True)
    old = sys.stdout
    sys.stdout = fake
    try:
        handler.handle_jsonrpc("ignored")
        fake.flush()
    except Exception:  # noqa
        sys.stdout = old
        return 1
    finally:
        sys.stdout = old
    out = raw.getvalue()
    head, sep, body = out.partition(b"\n\n")
    if not sep:
        return 2
    lines = head.decode("utf-8").split("\n")
    fields = {}
    for line in lines:
        key, _, value = line.partition(":")
        fields[key.strip().lower()] = value.strip()
    if fields.get("content-length") != str(len(body)):
        return 3
    if fields.get("content-type") != ctype:
        return 4
    return PASS if body == text.encode("utf-8") else 5
