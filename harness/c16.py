"""
C16 harness (CrossHair part): callback exceptions are contained for every kind
of callable (function, lambda, functools.partial, callable instance, bound
method, built-in), registered before or after completion.
Real code executed: FutureResult.execute / set_callback / __notify / done / result.
"""
import functools

import harness.stubs  # noqa: F401
from jsonrpclib.threadpool import FutureResult

PASS = 100


class CallableObject(object):
    def __init__(self, sink, fail):
        self.sink, self.fail = sink, fail

    def __call__(self, result, exception, extra):
        self.sink.append((result, exception, extra))
        if self.fail:
            raise RuntimeError("callback object fails")


class Holder(object):
    def __init__(self, sink, fail):
        self.sink, self.fail = sink, fail

    def method(self, result, exception, extra):
        self.sink.append((result, exception, extra))
        if self.fail:
            raise KeyError("bound method fails")


class FalsyError(ValueError):
    def __bool__(self):
        return False


def make_callback(kind, fail, sink):
    def plain(result, exception, extra):
        sink.append((result, exception, extra))
        if fail:
            raise ValueError("plain callback fails")

    if kind == "function":
        return plain
    if kind == "lambda":
        return lambda r, e, x: (sink.append((r, e, x)), 1 // (0 if fail else 1))[0]
    if kind == "partial":
        return functools.partial(plain)
    if kind == "partial_arity":
        return functools.partial(plain, 1, 2, 3)  # wrong arity: 6 arguments
    if kind == "object":
        return CallableObject(sink, fail)
    if kind == "bound":
        return Holder(sink, fail).method
    if kind == "builtin_arity":
        return len  # len(a, b, c) -> TypeError
    if kind == "one_arg":
        return lambda only: sink.append(only)
    raise ValueError(kind)


def h_contained(shape, value, extra):
    future = FutureResult()
    sink = []
    callback = make_callback(shape["kind"], shape["fail"], sink)
    failing_task = shape["task"] in ("raise", "raise_falsy")
    err = ValueError("task fails")
    if shape["task"] == "raise_falsy":
        err = FalsyError()  # an exception object that is falsy (empty aggregate, __bool__ False)

    def task():
        if failing_task:
            raise err
        return value

    outcome = None
    try:
        if shape["when"] == "before":
            future.set_callback(callback, extra)
        try:
            future.execute(task, None, None)
            outcome = "returned"
        except ValueError as ex:
            outcome = ex
        if shape["when"] == "after":
            future.set_callback(callback, extra)
    except Exception:  # noqa
        return 1  # the callback's failure escaped
    if failing_task:
        if outcome is not err:
            return 2
    elif outcome != "returned":
        return 3
    if not future.done():
        return 4
    try:
        got = future.result(0)
        if failing_task or got is not value and got != value:
            return 5
    except ValueError as ex:
        if not failing_task or ex is not err:
            return 6
    except Exception:  # noqa
        return 7
    if shape["kind"] in ("partial_arity", "builtin_arity", "one_arg"):
        return PASS + 1
    if len(sink) != 1:
        return 8
    want = (None, err, extra) if failing_task else (value, None, extra)
    got = sink[0]
    if got[1] is not want[1] or got[2] != want[2] or (got[0] is not want[0] and got[0] != want[0]):
        return 9
    return PASS
