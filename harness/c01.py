"""
C01 harness: end-to-end call transparency across versions, server classes and
call styles (in-process loopback transport).

Real code executed: _Method.__call__/__getattr__, _Notify, ServerProxy._request/
_run_request, MultiCall/MultiCallMethod/MultiCallNotify/MultiCallIterator,
dumps/dump/Payload, loads/load, check_for_errors, History, and on the server
_marshaled_dispatch -> _unmarshaled_dispatch -> validate_request ->
_marshaled_single_dispatch -> _dispatch, for the three dispatcher classes.
"""
import harness.stubs  # noqa: F401
from harness.stubs import TokenCodec, Loopback, normalise
from harness.jcommon import same_json
from harness.disp import make_dispatcher, close_servers, build
import jsonrpclib.jsonrpc as jsonrpc
from jsonrpclib.history import History
from jsonrpclib.config import Config

PASS = 100

NAMES = ("add", "a.b", "ns.sub.fn", "méthode", "keys", "with space", "_private", "x", "request", "clear", "Ünï.cödé",
         # begin or end with two underscores without being special names
         "__mangled", "flush__", "__x_")


class FakeUUID(object):
    def __init__(self):
        self.calls = 0

    def uuid4(self):
        self.calls += 1
        return "id-{0}".format(self.calls)


def resolve(root, name):
    obj = root
    for seg in name.split("."):
        obj = getattr(obj, seg)
    return obj


def h_call(shape, L):
    try:
        codec = TokenCodec().install()
        jsonrpc.uuid = FakeUUID()
        config = Config(version=shape.get("sver", 2.0), use_jsonclass=shape.get("jsonclass", True))
        dispatcher = make_dispatcher(shape, config)
        log = []
        name = NAMES[shape["name"]]
        ret = build(shape["ret"], L)

        def target(*args, **kwargs):
            log.append((args, kwargs))
            return ret

        other_log = []

        def other(*args, **kwargs):
            other_log.append((args, kwargs))
            return len(other_log)

        dispatcher.register_function(target, name)
        dispatcher.register_function(other, "other")
        transport = Loopback(dispatcher)
        history = History()
        proxy = jsonrpc.ServerProxy("http://h/", transport=transport, version=shape.get("cver"), history=history, config=config)
        args = [build(spec, L) for spec in shape["args"]]
        kwargs = {key: build(spec, L) for key, spec in shape["kwargs"].items()}
        style = shape["style"]
        try:
            if style == "call":
                value = resolve(proxy, name)(*args, **kwargs)
            else:
                # batch: the call at position pos among n entries
                n, pos = shape["n"], shape["pos"]
                multi = jsonrpc.MultiCall(proxy, config=config)
                if shape.get("reuse"):
                    # an all-notification batch first (empty reply), then the same object is used again
                    multi._notify.other(101)
                    multi._notify.other(102)
                    first = multi()
                    if first is None or len(first) != 0:
                        return 13
                    if len(other_log) != 2:
                        return 14
                    del other_log[:]
                slot = None
                answered = 0
                expected_other = 0
                for k in range(n):
                    if k == pos:
                        resolve(multi, name)(*args, **kwargs)
                        slot = answered
                        answered += 1
                    elif shape["neigh"][k] == "call":
                        multi.other(k)
                        answered += 1
                        expected_other += 1
                    else:
                        multi._notify.other(k)
                        expected_other += 1
                results = multi()
                if results is None or len(results) != answered:
                    return 1
                value = results[slot]
                if len(other_log) != expected_other:
                    return 2
                seen = list(results)
                if len(seen) != answered:
                    return 3
        except Exception:  # noqa
            return 4
        # the callable ran exactly once with exactly those arguments
        if len(log) != 1:
            return 5
        got_args, got_kwargs = log[0]
        if not same_json(list(got_args), normalise(args)):
            return 6
        if not same_json(got_kwargs, normalise(kwargs)):
            return 7
        # ... and the caller got exactly its return value
        if not same_json(value, normalise(ret)):
            return 8
        # history: exactly the texts exchanged, in order
        if history.requests != [entry[2] for entry in transport.log]:
            return 9
        if history.responses != [entry[3] for entry in transport.log]:
            return 10
        if len(transport.log) != (2 if shape.get("reuse") else 1):
            return 11
        if shape.get("reuse"):
            try:
                sent = codec.loads(transport.log[1][2])
            except ValueError:
                sent = None
            if type(sent) is not list or len(sent) != shape["n"]:
                return 15  # jobs of the first batch were sent again
        for text in history.requests + history.responses:
            if type(text) is not str:
                return 12
        return PASS
    finally:
        close_servers()
