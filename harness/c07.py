"""
C07 harness: objects survive dump/load wherever they occur.

Real code executed: jsonclass.dump, load, _find_fields, _slots_finder,
jsonrpc.dump/dumps/load/loads (use_jsonclass on), ServerProxy._request, the
dispatcher path of SimpleJSONRPCServer (RPC variants).
"""
import decimal

import harness.stubs  # noqa: F401
from harness.stubs import TokenCodec, Loopback
from harness import beans
from harness import jclasses
from harness.jcommon import equal_norm, only_plain, snapshot, unchanged
import jsonrpclib.jsonclass as jsonclass
import jsonrpclib.jsonrpc as jsonrpc
import jsonrpclib.SimpleJSONRPCServer as srv
from jsonrpclib.config import Config

PASS = 100

BEAN_TYPES = tuple(
    [getattr(beans, n) for n in beans.SPECS] + [getattr(beans, "L_" + n) for n in beans.SPECS]
    + [beans.SerList, beans.SerDict, beans.L_SerList, beans.L_SerDict, beans.SerCustomName]
)


def field_value(kind, L, name):
    """
    kind: leaf | list | tuple | set | bean | lbean | const:<repr>
    """
    if kind == "leaf":
        return L[name]
    if kind == "list":
        return [L[name], 1, []]
    if kind == "tuple":
        return (L[name], (2,))
    if kind == "dictv":
        return {"k": L[name], "e": {}}
    if kind == "bean":
        inner = beans.D1()
        inner.a = L[name]
        return inner
    if kind == "lbean":
        inner = beans.L_S1()
        inner.a = L[name]
        return inner
    if kind == "lbeanlist":
        inner = beans.L_S1()
        inner.a = L[name]
        return [inner, {"k": inner}]
    if kind == "beanlist":
        inner = beans.S1()
        inner.a = L[name]
        return [inner, L[name]]
    if kind == "none":
        return None
    raise ValueError(kind)


def same_value(got, orig):
    if isinstance(orig, BEAN_TYPES):
        return same_bean(got, orig)
    if isinstance(orig, (list, tuple)):
        return type(got) is list and len(got) == len(orig) and all(same_value(g, o) for g, o in zip(got, orig))
    if isinstance(orig, dict):
        return type(got) is dict and len(got) == len(orig) and all(k in got and same_value(got[k], v) for k, v in orig.items())
    return equal_norm(got, orig)


def bean_fields(obj):
    name = type(obj).__name__
    if name == "SerCustomName":
        return ["x", "extra"]
    return beans.field_names(name)


def same_bean(got, orig):
    if type(got) is not type(orig):
        return False
    for attr in bean_fields(orig):
        if not hasattr(got, attr):
            return False
        if not same_value(getattr(got, attr), getattr(orig, attr)):
            return False
    return True


def make_config(shape):
    config = Config(version=shape.get("sver", 2.0))
    if shape.get("local") or shape.get("need_local"):
        for name, cls in beans.local_table().items():
            config.classes.add(cls, name)
    return config


class Impostor(object):
    """a different class that another configuration's table binds to the same bare name"""


def prior_use(shape):
    """
    Another configuration in the same interpreter, whose class table binds the same bare
    name to a different class, has loaded an object of that name before.
    """
    if not shape.get("prior"):
        return
    other = Config()
    other.classes.add(Impostor, shape["cls"])
    try:
        jsonclass.load({"__jsonclass__": [shape["cls"], []]}, other.classes)
    except Exception:  # noqa
        pass


def make_obj(shape, L):
    names = beans.field_names(shape["cls"])
    values = [field_value(kind, L, "f{0}".format(i)) for i, kind in enumerate(shape["vals"])]
    assert len(values) == len(names), (names, values)
    return beans.make(shape["cls"], shape.get("local", False), values)


def wrap(pos, obj, L):
    if pos == "top":
        return obj
    if pos == "list":
        return [L["w"], obj]
    if pos == "dict":
        return {"first": L["w"], "obj": obj}
    if pos == "beanfield":
        outer = beans.D2()
        outer.a = L["w"]
        outer._b = [obj, {"deep": obj}]
        return outer
    if pos == "listlist":
        return [[obj], (obj,)]
    raise ValueError(pos)


def unwrap(pos, loaded):
    """
    list of the places where the object must re-appear
    """
    if pos == "top":
        return [loaded]
    if pos == "list":
        return [loaded[1]]
    if pos == "dict":
        return [loaded["obj"]]
    if pos == "beanfield":
        return [loaded._b[0], loaded._b[1]["deep"]]
    if pos == "listlist":
        return [loaded[0][0], loaded[1][0]]
    raise ValueError(pos)


def h_roundtrip(shape, L):
    prior_use(shape)
    config = make_config(shape)
    obj = make_obj(shape, L)
    wrapped = wrap(shape["pos"], obj, L)
    try:
        dumped = jsonclass.dump(wrapped, config=config)
    except Exception:  # noqa
        return 1
    if not only_plain(dumped):
        return 2
    snap = snapshot(dumped)
    try:
        loaded = jsonclass.load(dumped, config.classes)
    except Exception:  # noqa
        return 3
    if not unchanged(dumped, snap):
        return 4
    try:
        places = unwrap(shape["pos"], loaded)
    except Exception:  # noqa
        return 5
    for got in places:
        if not same_bean(got, obj):
            return 6
    return PASS


def h_rpc(shape, L):
    """
    The object travels as parameter and comes back as result of a remote call.
    """
    codec = TokenCodec().install()
    prior_use(shape)
    config = make_config(shape)
    dispatcher = srv.SimpleJSONRPCDispatcher(config=config)
    received = []

    def echo(value):
        received.append(value)
        return value

    def give():
        return wrap(shape["pos"], make_obj(shape, L), L)

    dispatcher.register_function(echo, "echo")
    dispatcher.register_function(give, "give")
    proxy = jsonrpc.ServerProxy(
        "http://h/", transport=Loopback(dispatcher), config=config, version=shape.get("cver")
    )
    obj = make_obj(shape, L)
    wrapped = wrap(shape["pos"], obj, L)
    try:
        if shape["dir"] == "param":
            back = proxy.echo(wrapped)
        else:
            back = proxy.give()
    except Exception:  # noqa
        return 10
    if shape["dir"] == "param":
        if len(received) != 1:
            return 11
        try:
            for got in unwrap(shape["pos"], received[0]):
                if not same_bean(got, obj):
                    return 12
        except Exception:  # noqa
            return 13
    try:
        for got in unwrap(shape["pos"], back):
            if not same_bean(got, obj):
                return 14
    except Exception:  # noqa
        return 15
    return PASS


ENUM_MEMBERS = (jclasses.Color.RED, jclasses.Color.BLUE)
DECIMALS = ("1.5", "0", "-3", "1E+2", "0.000001", "123456789012345678901234567890.5")


def h_special(shape, L):
    """
    Enumeration members and Decimals (values by table: both cross a C boundary
    or a CrossHair model), at every position, direct and over RPC.
    """
    if shape["what"] == "enum":
        obj = ENUM_MEMBERS[shape["index"]]
    else:
        obj = decimal.Decimal(DECIMALS[shape["index"]])
    config = Config(version=shape.get("sver", 2.0))
    wrapped = wrap(shape["pos"], obj, L)
    try:
        if shape.get("dir"):
            TokenCodec().install()
            dispatcher = srv.SimpleJSONRPCDispatcher(config=config)
            received = []

            def echo(value):
                received.append(value)
                return value

            dispatcher.register_function(echo, "echo")
            proxy = jsonrpc.ServerProxy("http://h/", transport=Loopback(dispatcher), config=config)
            loaded = proxy.echo(wrapped)
            for got in unwrap(shape["pos"], received[0]):
                if type(got) is not type(obj) or got != obj:
                    return 20
        else:
            dumped = jsonclass.dump(wrapped, config=config)
            if not only_plain(dumped):
                return 21
            loaded = jsonclass.load(dumped, config.classes)
    except Exception:  # noqa
        return 22
    for got in unwrap(shape["pos"], loaded):
        if type(got) is not type(obj) or got != obj:
            return 23
        if shape["what"] == "enum" and got is not obj:
            return 24
    return PASS
