"""
Helpers shared by the jsonclass harnesses (C07, C15, C20): typed deep equality,
snapshots, plain-data recognisers, container builders.
"""

PRIMS = (type(None), bool, int, float, str)


def snapshot(value):
    """
    Deep structural copy that keeps leaves (identity) and container types.
    """
    if isinstance(value, dict):
        return ("dict", [(k, snapshot(v)) for k, v in value.items()])
    if isinstance(value, list):
        return ("list", [snapshot(v) for v in value])
    if isinstance(value, tuple):
        return ("tuple", [snapshot(v) for v in value])
    if isinstance(value, (set, frozenset)):
        return (type(value).__name__, list(value))
    return ("leaf", value)


def unchanged(value, snap):
    """
    True iff value still has the structure and leaves recorded in snap.
    """
    kind, content = snap
    if kind == "dict":
        # same keys bound to unchanged values (insertion order is not part of
        # the claim: dict equality ignores it)
        if type(value) is not dict or len(value) != len(content):
            return False
        for k, sub in content:
            if k not in value or not unchanged(value[k], sub):
                return False
        return True
    if kind == "list":
        return type(value) is list and len(value) == len(content) and all(
            unchanged(v, s) for v, s in zip(value, content)
        )
    if kind == "tuple":
        return type(value) is tuple and len(value) == len(content) and all(
            unchanged(v, s) for v, s in zip(value, content)
        )
    if kind in ("set", "frozenset"):
        return type(value).__name__ == kind and len(value) == len(content) and all(c in value for c in content)
    return same_leaf(value, content)


def same_leaf(a, b):
    if a is b:
        return True
    return type(a) is type(b) and a == b


def only_plain(value):
    """
    dicts, lists and primitives only
    """
    if type(value) is dict:
        return all(only_plain(v) for v in value.values())
    if type(value) is list:
        return all(only_plain(v) for v in value)
    return value is None or type(value) in (bool, int, float, str)


def equal_norm(got, orig):
    """
    got equals orig up to container normalisation (tuple/set/frozenset -> list),
    exact type and value for every primitive.
    """
    if isinstance(orig, (list, tuple)):
        return type(got) is list and len(got) == len(orig) and all(equal_norm(g, o) for g, o in zip(got, orig))
    if isinstance(orig, (set, frozenset)):
        if type(got) is not list or len(got) != len(orig):
            return False
        rest = list(got)
        for o in orig:
            for i, g in enumerate(rest):
                if equal_norm(g, o):
                    del rest[i]
                    break
            else:
                return False
        return True
    if isinstance(orig, dict):
        if type(got) is not dict or len(got) != len(orig):
            return False
        for k, v in orig.items():
            if k not in got or not equal_norm(got[k], v):
                return False
        return True
    return same_leaf(got, orig)


def same_json(a, b):
    if isinstance(b, list):
        return isinstance(a, list) and len(a) == len(b) and all(same_json(x, y) for x, y in zip(a, b))
    if isinstance(b, dict):
        if not isinstance(a, dict) or len(a) != len(b):
            return False
        for key in b:
            if key not in a or not same_json(a[key], b[key]):
                return False
        return True
    return same_leaf(a, b)


# ---------------------------------------------------------------------------
# container shapes: ("leaf", name) | (kind, [children])

STR_KEYS = ("k0", "k1", "k2")
NONSTR_KEYS = (7, None, 2.5)


def build(shape, L):
    kind = shape[0]
    if kind == "leaf":
        return L[shape[1]]
    if kind == "const":
        return shape[1]
    children = [build(child, L) for child in shape[1]]
    if kind == "list":
        return children
    if kind == "tuple":
        return tuple(children)
    if kind == "set":
        return set(children)
    if kind == "frozenset":
        return frozenset(children)
    if kind == "dict":
        return dict(zip(STR_KEYS, children))
    if kind == "ndict":
        return dict(zip(NONSTR_KEYS, children))
    raise ValueError(kind)


def leaves_of(shape, out=None):
    if out is None:
        out = []
    if shape[0] == "leaf":
        out.append(shape[1])
    elif shape[0] != "const":
        for child in shape[1]:
            leaves_of(child, out)
    return out
