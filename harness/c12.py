"""
C12 harness (CrossHair part): the pooled server hands every connection to its
request pool exactly once; pool ownership.
Real code executed: PooledJSONRPCServer.__init__, process_request.
"""
import harness.stubs  # noqa: F401
from harness.disp import RecordingPool
import jsonrpclib.SimpleJSONRPCServer as srv
import jsonrpclib.threadpool as threadpool
from jsonrpclib.config import Config

PASS = 100


def h_handoff(shape, req, addr, port):
    pool = RecordingPool()
    server = srv.PooledJSONRPCServer(("localhost", 0), bind_and_activate=False, logRequests=False, config=Config(), thread_pool=pool)
    try:
        n = shape["n"]
        reqs = [(req + i, (addr, port + i)) for i in range(n)]
        for r, a in reqs:
            if server.process_request(r, a) is not None:
                return 1
        if len(pool.tasks) != n:
            return 2  # lost or duplicated hand-off
        for (method, args, kwargs), (r, a) in zip(pool.tasks, reqs):
            if method != server.process_request_thread or kwargs:
                return 3
            if len(args) != 2 or args[0] is not r and args[0] != r or args[1] != a:
                return 4
        return PASS
    finally:
        server.socket.close()


def h_pool_ownership(shape):
    if shape["pool"] == "user":
        pool = RecordingPool()
        server = srv.PooledJSONRPCServer(("localhost", 0), bind_and_activate=False, logRequests=False, thread_pool=pool)
        try:
            return PASS if server._PooledJSONRPCServer__request_pool is pool else 1
        finally:
            server.socket.close()
    server = srv.PooledJSONRPCServer(("localhost", 0), bind_and_activate=False, logRequests=False)
    try:
        pool = server._PooledJSONRPCServer__request_pool
        if not isinstance(pool, threadpool.ThreadPool):
            return 2
        if pool._done_event.is_set():
            return 3  # the default pool must be started
        if pool._max_threads < 1 or pool._min_threads != 0:
            return 4
        return PASS + 1
    finally:
        server.socket.close()
        pool.stop()


# ---------------------------------------------------------------------------
# a failing method on one connection leaves the server able to answer: whatever a
# registered method raises -- including SystemExit / KeyboardInterrupt /
# GeneratorExit -- the request handler returns normally with a framed reply

import io  # noqa: E402

from harness.stubs import TokenCodec  # noqa: E402
from harness.c17 import Handler, ShortReader, h_do_post  # noqa: E402,F401


class Boom(Exception):
    pass


FAILURES = {"ValueError": ValueError, "Boom": Boom, "SystemExit": SystemExit, "KeyboardInterrupt": KeyboardInterrupt,
            "GeneratorExit": GeneratorExit, "RecursionError": RecursionError, "MemoryError": MemoryError}


def h_failing_method(shape, rid, arg):
    codec = TokenCodec().install()
    config = Config()
    server = srv.SimpleJSONRPCServer(("localhost", 0), bind_and_activate=False, logRequests=False, config=config)
    try:
        calls = []

        def failing(x):
            calls.append(x)
            raise FAILURES[shape["exc"]]("stop now")

        def fine(x):
            return [x]

        server.register_function(failing, "failing")
        server.register_function(fine, "fine")
        request = {"method": "failing", "params": [arg]}
        if shape["form"] == "2.0":
            request.update({"jsonrpc": "2.0", "id": rid})
        elif shape["form"] == "1.0":
            request["id"] = rid
        else:
            request["jsonrpc"] = "2.0"
        outcomes = []
        for req in (request, {"jsonrpc": "2.0", "id": rid, "method": "fine", "params": [arg]}):
            body = codec.text_of(req).encode("utf-8")
            handler = Handler()
            handler.server = server
            handler.path = "/"
            handler.rpc_paths = ()
            handler.headers = {"content-length": str(len(body))}
            handler.rfile = ShortReader(body, [])
            handler.wfile = io.BytesIO()
            try:
                handler.do_POST()
            except BaseException:  # noqa
                return 1  # the failure escaped the request handler
            sent = handler.wfile.getvalue()
            lengths = [v for k, v in handler.sent_headers if k.lower() == "content-length"]
            if lengths != [str(len(sent))]:
                return 2
            outcomes.append((handler.status, codec.table.get(sent.decode("utf-8")) if sent else None))
        first, second = outcomes
        if len(calls) != 1:
            return 3
        if second[0] != 200 or not isinstance(second[1], dict) or second[1].get("result") != [arg]:
            return 4  # the next request is not served
        if len(second[1]) != 3 or second[1].get("jsonrpc") != "2.0" or second[1].get("id") != rid:
            return 8  # ... or not in the form of that very request (state left behind by the previous one)
        if shape["form"] == "notify":
            return PASS + 2 if first[0] == 200 and first[1] is None else 5
        reply = first[1]
        if first[0] != 200 or not isinstance(reply, dict) or not isinstance(reply.get("error"), dict):
            return 6
        if reply["error"].get("code") != -32603 or reply.get("id") != rid:
            return 7
        return PASS
    finally:
        server.socket.close()
