"""
C12 harness (CrossHair part): the pooled server hands every connection to its
request pool exactly once; pool ownership.
Real code executed: PooledJSONRPCServer.__init__, process_request.
"""
import harness.stubs  # noqa: F401
from harness.disp import RecordingPool
import jsonrpclib.SimpleJSONRPCServer as srv
import jsonrpclib.threadpool as threadpool
from jsonrpclib.config import Config

PASS = 100


def h_handoff(shape, req, addr, port):
    pool = RecordingPool()
    server = srv.PooledJSONRPCServer(("localhost", 0), bind_and_activate=False, logRequests=False, config=Config(), thread_pool=pool)
    try:
        before = dict(server.__dict__)
        n = shape["n"]
        reqs = [(req + i, (addr, port + i)) for i in range(n)]
        for r, a in reqs:
            if server.process_request(r, a) is not None:
                return 1
        if len(pool.tasks) != n:
            return 2  # lost or duplicated hand-off
        for (method, args, kwargs), (r, a) in zip(pool.tasks, reqs):
            if method != server.process_request_thread or kwargs:
                return 3
            if len(args) != 2 or args[0] is not r and args[0] != r or args[1] != a:
                return 4
        after = server.__dict__
        if set(after) != set(before) or any(after[k] is not before[k] for k in before):
            return 5  # the hand-off must not touch shared server state
        return PASS
    finally:
        server.socket.close()


def h_pool_ownership(shape):
    if shape["pool"] == "user":
        pool = RecordingPool()
        server = srv.PooledJSONRPCServer(("localhost", 0), bind_and_activate=False, logRequests=False, thread_pool=pool)
        try:
            return PASS if server._PooledJSONRPCServer__request_pool is pool else 1
        finally:
            server.socket.close()
    server = srv.PooledJSONRPCServer(("localhost", 0), bind_and_activate=False, logRequests=False)
    try:
        pool = server._PooledJSONRPCServer__request_pool
        if not isinstance(pool, threadpool.ThreadPool):
            return 2
        if pool._done_event.is_set():
            return 3  # the default pool must be started
        if pool._max_threads < 1 or pool._min_threads != 0:
            return 4
        return PASS + 1
    finally:
        server.socket.close()
        pool.stop()
