"""
C10 harness (CrossHair part): ThreadPool constructor argument validation and clamping.
Real code executed: ThreadPool.__init__.
"""
import harness.stubs  # noqa: F401
from jsonrpclib.threadpool import ThreadPool

PASS = 100
NON_NUMERIC = (None, "abc", "", [], {}, object, "1.5x", (1,))
NUMERIC_LIKE = ("3", " 2 ", 2.9, True, "0", "-1", 0.5)


def h_init(shape, mx, mn, qs):
    try:
        pool = ThreadPool(mx, mn, qs)
    except ValueError:
        return PASS + 1 if mx < 1 else 1
    except Exception:  # noqa
        return 2
    if mx < 1:
        return 3
    if pool._max_threads != mx or type(pool._max_threads) is not int:
        return 4
    want = mn
    if want < 0:
        want = 0
    if want > mx:
        want = mx
    if pool._min_threads != want:
        return 5
    if pool._queue.maxsize != qs:
        return 6
    if not pool._done_event.is_set() or pool._threads != []:
        return 7
    return PASS


def h_init_table(shape, mn):
    """non-numeric / numeric-like max_threads, min_threads by table"""
    which, idx = shape["which"], shape["index"]
    value = (NON_NUMERIC if shape["table"] == "non" else NUMERIC_LIKE)[idx]
    try:
        if which == "max":
            pool = ThreadPool(value, mn)
        else:
            pool = ThreadPool(3, value)
    except ValueError:
        try:
            ok = int(value) >= 1 if which == "max" else True
            int(value)
        except (TypeError, ValueError):
            return PASS + 1  # not numeric: rejected as documented
        return PASS + 1 if (which == "max" and not ok) else 1
    except Exception:  # noqa
        return 2
    try:
        num = int(value)
    except (TypeError, ValueError):
        return 3  # accepted a non-numeric value
    if which == "max":
        if num < 1 or pool._max_threads != num:
            return 4
        want = min(max(mn, 0), num)
        return PASS if pool._min_threads == want else 5
    want = min(max(num, 0), 3)
    return PASS if pool._min_threads == want else 6
