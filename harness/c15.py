"""
C15 harness: jsonclass round-trips plain data and is side-effect free.

Real code executed: jsonclass.dump, jsonclass.load (all branches reachable with
plain data and with malformed / failing __jsonclass__ descriptors).
"""
import harness.stubs  # noqa: F401  (logging off)
import harness.jclasses  # noqa: F401
from harness.jcommon import snapshot, unchanged, only_plain, equal_norm, build
import jsonrpclib.jsonclass as jsonclass
from jsonrpclib.config import Config

P_ROUNDTRIP = 100
P_LOAD_RAISED = 101
P_LOAD_RETURNED = 102


def h_roundtrip(shape, L):
    value = build(shape, L)
    snap = snapshot(value)
    try:
        dumped = jsonclass.dump(value, config=Config())
    except Exception:  # noqa
        return 1
    if not unchanged(value, snap):
        return 2
    if not only_plain(dumped):
        return 3
    snap_d = snapshot(dumped)
    try:
        loaded = jsonclass.load(dumped)
    except Exception:  # noqa
        return 4
    if not unchanged(dumped, snap_d):
        return 5
    if not unchanged(value, snap):
        return 6
    if not equal_norm(loaded, value):
        return 7
    return P_ROUNDTRIP


BAD_NAMES = ("bad name!", "a/b.C", "os;x", "été.K")


def descriptor(kind, L):
    """
    A dict carrying a __jsonclass__ member whose load fails (or, for 'ok',
    succeeds), plus ordinary members with symbolic values.
    """
    M = "harness.jclasses."
    if kind == "ok":
        return {"__jsonclass__": [M + "Plain", []], "a": L["v1"], "b": [L["v2"]]}
    if kind == "ok_nested":
        return {"__jsonclass__": [M + "Plain", []], "a": {"__jsonclass__": [M + "Plain", []], "a": L["v1"]}, "z": L["v2"]}
    if kind.startswith("badname"):
        return {"__jsonclass__": [BAD_NAMES[int(kind[-1])], []], "a": L["v1"]}
    if kind == "emptyname":
        return {"__jsonclass__": ["", []], "a": L["v1"]}
    if kind == "missing_module":
        return {"__jsonclass__": ["no_such_module_xyz.K", []], "a": L["v1"]}
    if kind == "unknown_class":
        return {"__jsonclass__": [M + "Nope", []], "a": L["v1"]}
    if kind == "short":
        return {"__jsonclass__": [M + "Plain"], "a": L["v1"]}
    if kind == "notlist":
        return {"__jsonclass__": L["v2"], "a": L["v1"]}
    if kind == "params_int":
        return {"__jsonclass__": [M + "Plain", L["v1"]], "a": L["v1"]}
    if kind == "ctor_reject":
        return {"__jsonclass__": [M + "NeedsArg", []], "a": L["v1"]}
    if kind == "ctor_reject_kw":
        return {"__jsonclass__": [M + "Plain", {"nope": L["v1"]}], "a": L["v1"]}
    if kind == "setattr_reject":
        return {"__jsonclass__": [M + "Slotted", []], "a": L["v1"], "zz": L["v2"]}
    if kind == "libclass_attr":
        # a library value class that accepts no new attributes (Decimal itself is
        # replaced by a CrossHair model under symbolic execution, so a class
        # CrossHair leaves alone is used)
        return {"__jsonclass__": ["fractions.Fraction", ["3/2"]], "x": L["v1"]}
    if kind == "nested_bad":
        return {"__jsonclass__": [M + "Plain", []], "a": L["v1"], "child": {"__jsonclass__": ["bad name!", []], "q": L["v2"]}}
    if kind == "nested_bad_list":
        return {"__jsonclass__": [M + "Plain", []], "kids": [L["v1"], {"__jsonclass__": [M + "NeedsArg", []]}], "b": L["v2"]}
    raise ValueError(kind)


def h_load_effect(shape, L):
    """
    load() on a structure containing a descriptor: whatever happens, the
    argument is left exactly as it was.
    """
    desc = descriptor(shape["kind"], L)
    pos = shape["pos"]
    if pos == "top":
        arg = desc
    elif pos == "list":
        arg = [L["v2"], desc]
    elif pos == "dict":
        arg = {"x": desc, "y": [L["v1"]]}
    elif pos == "attr":
        arg = {"__jsonclass__": ["harness.jclasses.Plain", []], "first": L["v2"], "inner": desc}
    else:
        raise ValueError(pos)
    snap = snapshot(arg)
    classes = None
    if shape.get("classes"):
        classes = {"Plain": harness.jclasses.Plain}
    try:
        jsonclass.load(arg, classes)
        outcome = P_LOAD_RETURNED
    except Exception:  # noqa
        outcome = P_LOAD_RAISED
    if not unchanged(arg, snap):
        return 10
    return outcome


def h_dump_effect(shape, L):
    """
    dump() of an object graph with beans: arguments untouched.
    """
    bean = harness.jclasses.Plain()
    bean.a = L["v1"]
    bean.items = [L["v2"], (L["v1"],)]
    arg = {"b": bean, "l": [bean, L["v2"]]}
    before = (snapshot(bean.__dict__), snapshot({"l1": arg["l"][1]}))
    ident = (arg["b"], arg["l"][0])
    try:
        jsonclass.dump(arg, config=Config())
    except Exception:  # noqa
        return 1
    if arg["b"] is not ident[0] or arg["l"][0] is not ident[1]:
        return 2
    if not unchanged(bean.__dict__, before[0]):
        return 3
    return P_ROUNDTRIP
