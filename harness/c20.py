"""
C20 harness: serialisation customisation is honoured at every depth.

Real code executed: jsonclass.dump (handler lookup, ignore-list assembly, field
filtering, configured names), _find_fields, _slots_finder, Config.
"""
import datetime

import harness.stubs  # noqa: F401
from harness import beans
from harness.jcommon import equal_norm, only_plain
import jsonrpclib.jsonclass as jsonclass
from jsonrpclib.config import Config

PASS = 100


def with_ignore(cls, attr_name, names):
    """
    Subclass carrying a class-level ignore list (same instance layout).
    """
    ns = {attr_name: list(names), "__module__": cls.__module__}
    if "__slots__" in cls.__dict__:
        ns["__slots__"] = ()
    return type(cls.__name__, (cls,), ns)


class Outer(object):
    """enclosing bean with field names no generated class uses"""

    def __init__(self):
        self.outer_w = None
        self.outer_items = None


def place(pos, obj, L):
    if pos == "top":
        return obj
    if pos == "list":
        return [L["w"], obj]
    if pos == "dict":
        return {"k": obj, "w": L["w"]}
    if pos == "field":
        outer = Outer()
        outer.outer_w = L["w"]
        outer.outer_items = [obj, {"deep": [obj]}]
        return outer
    raise ValueError(pos)


def find(pos, dumped):
    if pos == "top":
        return [dumped]
    if pos == "list":
        return [dumped[1]]
    if pos == "dict":
        return [dumped["k"]]
    if pos == "field":
        return [dumped["outer_items"][0], dumped["outer_items"][1]["deep"][0]]
    raise ValueError(pos)


def h_ignore(shape, L):
    """
    Ignore lists: per object (class attribute under the configured name), per
    call (ignore= argument), both; names never appear, other fields do.
    """
    name = shape["cls"]
    fields = beans.field_names(name)
    cls = beans.get_class(name, False)
    attr_name = shape.get("attr_name", "_ignore")
    own = [fields[i] for i in shape["own"]]
    arg = [fields[i] for i in shape["arg"]]
    if shape["own_mode"] != "absent":
        cls = with_ignore(cls, attr_name, own)
    else:
        own = []
    obj = cls()
    values = {}
    for i, attr in enumerate(fields):
        values[attr] = L["f{0}".format(i)]
        setattr(obj, attr, values[attr])
    config = Config()
    kwargs = {}
    via = shape.get("via", "default")
    if via == "config":
        config = Config(ignore_attribute=attr_name)
    elif via == "argument":
        kwargs["ignore_attribute"] = attr_name
    if arg or shape.get("arg_given"):
        kwargs["ignore"] = list(arg)
    consulted = (via != "default") or attr_name == "_ignore"
    effective = set(arg) | (set(own) if consulted else set())
    wrapped = place(shape["pos"], obj, L)
    try:
        dumped = jsonclass.dump(wrapped, config=config, **kwargs)
    except Exception:  # noqa
        return 1
    if not only_plain(dumped):
        return 2
    try:
        places = find(shape["pos"], dumped)
    except Exception:  # noqa
        return 3
    ignore_values = list(arg) + (list(own) if consulted else [])
    for got in places:
        if type(got) is not dict or "__jsonclass__" not in got:
            return 4
        for attr in fields:
            if attr in effective:
                if attr in got:
                    return 5  # an ignored attribute appears
            else:
                if attr not in got:
                    # documented: values equal to an entry of the ignore list are skipped too
                    if values[attr] in ignore_values:
                        continue
                    return 6
                if not equal_norm(got[attr], values[attr]):
                    return 7
        for key in got:
            if key != "__jsonclass__" and key not in fields:
                return 8
    if shape["pos"] == "field" and not equal_norm(dumped.get("outer_w"), L["w"]):
        return 9
    return PASS


class Marker(object):
    """a value returned by a handler: must appear verbatim (identity)"""


def h_handler(shape, L):
    """
    serialize_handlers: exact type match, verbatim output, at every depth,
    precedence over built-in handling.
    """
    kind = shape["handled"]
    calls = []
    marker = {"handled": [L["w"]]}

    def handler(obj, serialize_method, ignore_attribute, ignore, config):
        calls.append(obj)
        if shape.get("ret") == "leaf":
            return L["w"]
        return marker

    config = Config()
    if kind == "bean":
        htype = beans.D2
        value = beans.D2()
        value.a = L["v"]
        builtin_sub = beans.DD()  # subclass of D2: must NOT use the handler
        builtin_sub.a = L["v"]
    elif kind == "date":
        htype = datetime.date
        value = datetime.date(2020, 1, 2)
        builtin_sub = None
    elif kind == "tuple":
        htype = tuple
        value = (L["v"], 1)
        builtin_sub = None
    elif kind == "str":
        htype = str
        value = L["s"]
        builtin_sub = None
    elif kind == "int":
        htype = int
        value = L["v"]
        builtin_sub = True  # bool is not exactly int: built-in handling
    elif kind == "complex":
        htype = complex
        value = complex(1, 2)
        builtin_sub = None
    else:
        raise ValueError(kind)
    if shape.get("late"):
        # the configuration has already been used (a bean dumped with it) when the handler is registered
        try:
            first = beans.D1()
            jsonclass.dump([first, {"k": first}], config=config)
        except Exception:  # noqa
            return 10
    config.serialize_handlers[htype] = handler
    wrapped = place(shape["pos"], value, L) if shape["pos"] != "beanattr" else None
    if shape["pos"] == "beanattr":
        wrapped = beans.D2()
        wrapped.a = value
        wrapped._b = L["w"]
    try:
        dumped = jsonclass.dump(wrapped, config=config)
    except Exception:  # noqa
        return 1
    try:
        if shape["pos"] == "beanattr":
            if kind == "bean":
                # the outer bean is itself a D2: handled at the top
                places = [dumped]
            else:
                if "a" not in dumped:
                    return 2  # a handled type counts as known: field must not be dropped
                places = [dumped["a"]]
        else:
            places = find(shape["pos"], dumped)
    except Exception:  # noqa
        return 3
    for got in places:
        if shape.get("ret") == "leaf":
            if type(got) is not type(L["w"]) or got != L["w"]:
                return 4
        elif got is not marker:
            return 4
    if not calls:
        return 5
    for seen in calls:
        if type(seen) is not htype:
            return 6
    # objects of a subclass keep the built-in handling
    if builtin_sub is not None:
        before = len(calls)
        try:
            other = jsonclass.dump([builtin_sub], config=config)
        except Exception:  # noqa
            return 7
        if len(calls) != before:
            return 8
        if kind == "bean":
            if type(other[0]) is not dict or other[0].get("__jsonclass__") != ["harness.beans.DD", []]:
                return 9
        elif other[0] is not True:
            return 9
    return PASS


class OnlyDefaultName(object):
    def __init__(self):
        self.x = None

    def _serialize(self):
        raise AssertionError("must not be consulted when another name is configured")


def h_names(shape, L):
    """
    The configured serialisation-method name is the one consulted.
    """
    via = shape["via"]
    config = Config()
    kwargs = {}
    if via == "config":
        config = Config(serialize_method="to_wire")
    elif via == "argument":
        kwargs["serialize_method"] = "to_wire"
    obj = beans.SerCustomName(L["v"])
    obj.extra = L["w"]
    plain = OnlyDefaultName()
    plain.x = L["v"]
    wrapped = place(shape["pos"], obj, L)
    try:
        if via == "default":
            # default name: the class's _serialize raises AssertionError -> propagates
            try:
                jsonclass.dump(wrapped, config=config)
                return 1
            except AssertionError:
                return PASS + 1
        dumped = jsonclass.dump(wrapped, config=config, **kwargs)
        other = jsonclass.dump([plain], config=config, **kwargs)
    except Exception:  # noqa
        return 2
    for got in find(shape["pos"], dumped):
        if type(got) is not dict:
            return 3
        if got.get("__jsonclass__") != ["harness.beans.SerCustomName", [L["v"]]]:
            return 4
        if "extra" not in got or not equal_norm(got["extra"], L["w"]):
            return 5
    if type(other[0]) is not dict or not equal_norm(other[0].get("x"), L["v"]):
        return 6
    return PASS


class Opaque(object):
    __slots__ = ()


class StrictEq(object):
    """an unsupported value whose comparison with anything but its own kind fails"""

    def __eq__(self, other):
        return self.key == other.key  # AttributeError for str

    __hash__ = None


def h_unsupported(shape, L):
    """
    Fields of neither a supported nor a handled type are omitted, no failure.
    """
    obj = beans.D3()
    obj.a = L["v"]
    obj._b = {"plain": L["w"]}
    bad = {"object": Opaque(), "function": len, "complex": complex(1, 2), "bytes": b"x", "bean": beans.S1(),
           "strict_eq": StrictEq()}[shape["bad"]]
    setattr(obj, "_D3__c", bad)
    wrapped = place(shape["pos"], obj, L)
    try:
        if shape.get("ignore"):
            dumped = jsonclass.dump(wrapped, config=Config(), ignore=["no_such_field"])
        else:
            dumped = jsonclass.dump(wrapped, config=Config())
    except Exception:  # noqa
        return 1
    if shape["bad"] != "bytes" and not only_plain(dumped):
        return 2
    for got in find(shape["pos"], dumped):
        if type(got) is not dict:
            return 3
        if shape["bad"] != "bytes" and "_D3__c" in got:
            return 4
        if "a" not in got or not equal_norm(got["a"], L["v"]) or "_b" not in got:
            return 5
    return PASS
