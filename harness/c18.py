"""
C18 harness: custom headers compose by recency and are restored after a block.
"""
import harness.stubs  # noqa: F401
from harness.stubs import TokenCodec
from harness.wire import FakeResponse, RecordingConnection
import jsonrpclib.jsonrpc as jsonrpc
from jsonrpclib.config import Config

PASS = 100

NAMES = ("X-A", "x-a", "X-a", "X-B", "Content-Length", "content-type", "User-Agent", "user-agent", "CONTENT-LENGTH", "USER-AGENT")


class Boom(Exception):
    pass


class BaseBoom(BaseException):
    """a block can also be left through KeyboardInterrupt / SystemExit-like exceptions"""


def build_dicts(shape, L):
    """
    shape["dicts"]: list of lists of (name index, leaf name | ('const', v))
    """
    out = []
    for entries in shape["dicts"]:
        d = {}
        for name_idx, leaf in entries:
            d[NAMES[name_idx]] = L[leaf] if isinstance(leaf, str) else leaf[1]
        out.append(d)
    return out


def expected_headers(stack):
    """
    lower-cased name -> str(value) of the most recently pushed definition
    """
    result = {}
    for d in stack:
        for key, value in d.items():
            result[str(key).lower()] = str(value)
    return result


def check_request(req, stack, config, codes):
    headers = req["headers"]
    want = expected_headers(stack)
    body = req["body"]
    by_lower = {}
    for name, value in headers:
        by_lower.setdefault(str(name).lower(), []).append(value)
    # fixed headers can never be overridden
    if by_lower.get("content-type") != [config.content_type]:
        return codes + 1
    if by_lower.get("content-length") != [str(len(body))]:
        return codes + 2
    for name, value in want.items():
        if name in ("content-type", "content-length"):
            continue
        got = by_lower.get(name)
        if got is None or len(got) != 1:
            return codes + 3  # missing or duplicated
        if got[0] != value or type(got[0]) is not str:
            return codes + 4  # superseded value
    if "user-agent" not in want and by_lower.get("user-agent") != [config.user_agent]:
        return codes + 5
    for name in by_lower:
        if name not in want and name not in ("content-type", "content-length", "user-agent", "accept-encoding"):
            return codes + 6
    if not req["ended"]:
        return codes + 7
    return 0


def h_headers(shape, L):
    codec = TokenCodec().install()
    config = Config(user_agent="agent/0", content_type=shape.get("ctype", "application/json-rpc"))
    dicts = build_dicts(shape, L)
    transport = jsonrpc.Transport(config)
    replies = []
    connection = RecordingConnection(replies)
    transport.make_connection = lambda host: connection
    h0 = dicts[0] if shape.get("ctor") else None
    proxy = jsonrpc.ServerProxy("http://h/x", transport=transport, headers=h0, config=config)
    ops = shape["ops"]
    state = {"stack": [h0 or {}], "fail": 0, "calls": 0}

    def do_call(kind):
        ok = {"jsonrpc": "2.0", "id": 1, "result": 5}
        if kind == "batch":
            replies.append(FakeResponse(codec.text_of([ok, ok]).encode("utf-8")))
            multi = jsonrpc.MultiCall(proxy, config=config)
            multi.m(1)
            multi.m(2)
            multi()
        elif kind == "notify":
            replies.append(FakeResponse(b""))
            proxy._notify.m(1)
        else:
            replies.append(FakeResponse(codec.text_of(ok).encode("utf-8")))
            proxy.m(1)
        state["calls"] += 1
        if len(connection.requests) != state["calls"]:
            return 10
        return check_request(connection.requests[-1], state["stack"], config, 20)

    def run(i):
        while i < len(ops):
            op = ops[i]
            if op[0] == "enter":
                d = dicts[op[1]]
                before = list(transport.additional_headers)
                state["stack"].append(d)
                try:
                    with proxy._additional_headers(d) as inner:
                        if inner is not proxy:
                            state["fail"] = state["fail"] or 11
                        i = run(i + 1)
                        if ops[i - 1][0] == "raise_leave":
                            raise Boom()
                        if ops[i - 1][0] == "base_leave":
                            raise BaseBoom()
                except (Boom, BaseBoom):
                    pass
                state["stack"].pop()
                after = transport.additional_headers
                if len(after) != len(before) or any(a is not b for a, b in zip(after, before)):
                    state["fail"] = state["fail"] or 12  # not restored
                continue
            if op[0] in ("leave", "raise_leave", "base_leave"):
                return i + 1
            if op[0] == "call":
                code = do_call(op[1])
                if code and not state["fail"]:
                    state["fail"] = code
            i += 1
        return i

    try:
        run(0)
    except BaseException:  # noqa
        return 13
    if state["fail"]:
        return state["fail"]
    return PASS
