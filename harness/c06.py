"""
C06 harness: the client never swallows or mistypes a server-reported error.

Real code executed: jsonrpc.check_for_errors, ServerProxy._request /
_request_notify / _run_request, MultiCall._request, MultiCallIterator.__getitem__ /
__iter__, AppError.data, jsonrpc.loads/load.
"""
from harness.stubs import TokenCodec, Canned
import jsonrpclib.jsonrpc as jsonrpc
from jsonrpclib.jsonrpc import AppError, ProtocolError, check_for_errors
from jsonrpclib.config import Config

# pass codes
P_APP = 100  # AppError with (code, message, data)
P_PROTO = 101  # plain ProtocolError with (code, message)
P_RAW = 102  # ProtocolError for an error without usable code
P_RESULT = 103  # result returned unchanged

ENTRIES = ("check", "request", "notify", "multi_getitem", "multi_iter")


def build_error(shape, L):
    """
    Builds the 'error' member from the shape and the symbolic leaves.
    """
    kind = shape["error"]
    if kind == "obj":
        err = {}
        for member in shape["members"]:
            if member == "code":
                err["code"] = None if shape["code"] == "none" else L["code"]
            elif member == "data":
                err["data"] = L["data"]
            else:
                err[member] = L[member]
        return err
    if kind == "single":
        return {shape["key"]: L["val"]}
    if kind == "str":
        return L["err_s"]
    if kind == "int":
        return L["err_i"]
    if kind == "float":
        return L["err_f"]
    if kind == "list":
        return [L["err_s"]]
    if kind == "true":
        return True
    raise ValueError(kind)


def build_reply(shape, L, error):
    reply = {"id": L.get("rid", 1)}
    if shape["envelope"] == 2:
        reply["jsonrpc"] = "2.0"
    if shape["result"] == "none":
        reply["result"] = None
    elif shape["result"] == "value":
        reply["result"] = L["res"]
    reply["error"] = error
    return reply


def expected(shape, L, error):
    """
    Oracle, written from the property text.
    returns (pass_code, exception class or None, args[0] or None)
    """
    if shape["error"] == "obj" and "code" in shape["members"]:
        code = error["code"]
        if "message" in error:
            message = error["message"]
        elif "trace" in error:
            message = error["trace"]
        else:
            message = "<no error message>"
        numeric = isinstance(code, (int, float)) and not isinstance(code, bool)
        if numeric and -32700 <= code <= -32000:
            return P_PROTO, ProtocolError, (code, message)
        return P_APP, AppError, (code, message, error.get("data", None))
    return P_RAW, ProtocolError, None


def invoke(shape, reply):
    """
    Runs the entry point of the shape on the reply; returns ('ret', v) / ('exc', e)
    """
    entry = shape["entry"]
    try:
        if entry == "check":
            return ("ret", check_for_errors(reply))
        codec = TokenCodec().install()
        if entry in ("request", "notify"):
            transport = Canned([codec.text_of(reply)])
            proxy = jsonrpc.ServerProxy("http://h/", transport=transport, config=Config())
            if entry == "request":
                return ("ret", proxy._request("m", [1]))
            return ("ret", proxy._request_notify("m", [1]))
        # batch: the faulty reply at position pos of n
        n, pos = shape["n"], shape["pos"]
        batch = [{"jsonrpc": "2.0", "id": k, "result": k} for k in range(n)]
        batch[pos] = reply
        transport = Canned([codec.text_of(batch)])
        proxy = jsonrpc.ServerProxy("http://h/", transport=transport, config=Config())
        multi = jsonrpc.MultiCall(proxy, config=Config())
        for _ in range(n):
            multi.m(1)
        results = multi()
        if entry == "multi_getitem":
            for k in range(n):
                if k != pos and results[k] != k:
                    return ("ret", "neighbour-wrong")
            return ("ret", results[pos])
        seen = []
        for item in results:
            seen.append(item)
        return ("ret", ("iter-finished", seen))
    except Exception as ex:  # noqa
        return ("exc", ex)


def h_error(shape, L):
    """
    Reply with a non-empty error member.
    """
    error = build_error(shape, L)
    reply = build_reply(shape, L, error)
    code, exc_class, args0 = expected(shape, L, error)
    how, value = invoke(shape, reply)
    if how == "ret":
        return 1  # swallowed
    if not isinstance(value, ProtocolError):
        return 2  # another exception type
    if exc_class is AppError:
        if type(value) is not AppError:
            return 3
        if len(value.args) != 1 or value.args[0] != args0:
            return 4
        if not same(value.data(), args0[2]):
            return 5
        return code
    if code == P_PROTO:
        if type(value) is not ProtocolError:
            return 3
        if len(value.args) != 1 or value.args[0] != args0:
            return 4
        return code
    return code


def same(a, b):
    return type(a) is type(b) and a == b


def h_result(shape, L):
    """
    Reply with null/absent error and a result member: returned unchanged.
    """
    res = result_value(shape, L)
    reply = {"id": L.get("rid", 1), "result": res}
    if shape["envelope"] == 2:
        reply["jsonrpc"] = "2.0"
    if shape["errmember"] == "null":
        reply["error"] = None
    how, value = invoke(shape, reply)
    if how == "exc":
        return 7
    entry = shape["entry"]
    if entry == "check":
        return P_RESULT if value is reply else 6
    if entry == "notify":
        return P_RESULT if value is None else 6
    if entry == "multi_iter":
        tag, seen = value
        n, pos = shape["n"], shape["pos"]
        if len(seen) != n:
            return 6
        for k in range(n):
            want = res if k == pos else k
            if not same_json(seen[k], want):
                return 6
        return P_RESULT
    return P_RESULT if same_json(value, res) else 6


def same_json(a, b):
    if isinstance(b, list):
        return isinstance(a, list) and len(a) == len(b) and all(same_json(x, y) for x, y in zip(a, b))
    if isinstance(b, dict):
        return isinstance(a, dict) and set(a) == set(b) and all(same_json(a[k], b[k]) for k in b)
    return type(a) is type(b) and a == b


def result_value(shape, L):
    kind = shape["res"]
    table = {"none": None, "false": False, "zero": 0, "fzero": 0.0, "empty": "", "elist": [], "edict": {}}
    if kind in table:
        return table[kind]
    if kind == "list":
        return [L["res"], []]
    if kind == "dict":
        return {"k": L["res"], "e": {}}
    return L["res"]
