"""
Classes used as jsonclass translation targets by the harnesses.  They live in an
importable module so that descriptors can name them by module path.
"""
import enum


class Plain(object):
    def __init__(self):
        self.a = 0


class Slotted(object):
    __slots__ = ("a",)

    def __init__(self):
        self.a = 0


class NeedsArg(object):
    def __init__(self, x):
        self.x = x


class Color(enum.Enum):
    RED = 1
    BLUE = "b"


CONSTRUCTED = []


class Canary(object):
    """
    Records every construction (C08 tripwire).
    """

    def __init__(self, *args, **kwargs):
        CONSTRUCTED.append((args, kwargs))
