"""
Generated class definitions for the jsonclass properties (C07, C20).

The table below plays the role of the "programs" quantifier: attribute-dict and
slotted classes, 1-3 fields with public / protected / name-mangled names,
inheritance chains of depth 0-3 mixing both kinds, custom serialisation methods
returning list or dict constructor arguments plus an attribute map.  Every class
exists twice: importable by module path (harness.beans.X) and as a "local" class
(__module__ == '__main__') that must be registered in Config.classes.
"""
import sys

SPECS = {
    # name: (kind, own fields, base)
    "D1": ("dict", ("a",), None),
    "D2": ("dict", ("a", "_b"), None),
    "D3": ("dict", ("a", "_b", "__c"), None),
    "S1": ("slots", ("a",), None),
    "S2": ("slots", ("a", "_b"), None),
    "S3": ("slots", ("a", "_b", "c"), None),
    # inheritance
    "DD": ("dict", ("c",), "D2"),
    "DDD": ("dict", ("d",), "DD"),
    "SS": ("slots", ("c",), "S2"),
    "SSS": ("slots", ("d",), "SS"),
    "DS": ("dict", ("c",), "S1"),  # attribute-dict child of a slotted parent
    "SD": ("slots", ("c",), "D1"),  # slotted child of an attribute-dict parent
    "SDS": ("slots", ("d",), "DS"),
    "DSD": ("dict", ("d",), "SD"),
    "DSDS": ("slots", ("e",), "DSD"),  # depth 3
    # constructors that assign non-None defaults (a dropped field would silently get them back)
    "DN": ("dict", ("a", "_b"), None),
    "SN": ("slots", ("a", "_b"), None),
}

DEFAULTS = {"DN": {"a": 7, "_b": "x"}, "SN": {"a": 5, "_b": [1]}}


def real_name(cls_name, field):
    if field.startswith("__"):
        return "_{0}{1}".format(cls_name.lstrip("_"), field)
    return field


def all_fields(name):
    """
    attribute names (after mangling) of a class, inherited first
    """
    kind, own, base = SPECS[name]
    fields = list(all_fields(base)) if base else []
    fields += [real_name(name, f) for f in own]
    return fields


def _make(name, module):
    kind, own, base = SPECS[name]
    bases = (getattr(sys.modules[__name__], ("L_" if module == "__main__" else "") + base),) if base else (object,)
    names = [real_name(name, f) for f in own]

    def __init__(self, *args):
        if base:
            bases[0].__init__(self)
        for attr in names:
            setattr(self, attr, DEFAULTS.get(name, {}).get(attr))

    ns = {"__init__": __init__, "__module__": module, "__qualname__": name}
    if kind == "slots":
        ns["__slots__"] = tuple(names)
    return type(name, bases, ns)


for _name in SPECS:
    globals()[_name] = _make(_name, __name__)
for _name in SPECS:
    globals()["L_" + _name] = _make(_name, "__main__")


class SerList(object):
    """custom serialisation: list constructor arguments + attribute map"""

    def __init__(self, x, y=None):
        self.x = x
        self.y = y
        self.extra = None

    def _serialize(self):
        return [self.x, self.y], {"extra": self.extra}


class SerDict(object):
    """custom serialisation: dict constructor arguments + attribute map"""

    def __init__(self, x=None, y=None):
        self.x = x
        self.y = y
        self.extra = None

    def _serialize(self):
        return {"x": self.x, "y": self.y}, {"extra": self.extra}


class SerCustomName(object):
    """serialisation method under a configured (non-default) name"""

    def __init__(self, x=None):
        self.x = x
        self.extra = None

    def to_wire(self):
        return [self.x], {"extra": self.extra}

    def _serialize(self):
        raise AssertionError("default-named method must not be consulted")


def _local(cls):
    ns = dict(cls.__dict__)
    ns.pop("__dict__", None)
    ns.pop("__weakref__", None)
    ns["__module__"] = "__main__"
    return type(cls.__name__, cls.__bases__, ns)


L_SerList = _local(SerList)
L_SerDict = _local(SerDict)


def get_class(name, local):
    return globals()[("L_" if local else "") + name]


def local_table():
    """
    Config.classes content for the local classes
    """
    table = {}
    for name in list(SPECS) + ["SerList", "SerDict"]:
        table[name] = globals()["L_" + name]
    return table


def make(name, local, values):
    """
    Instance of class `name` whose fields (inherited first) get `values`.
    """
    cls = get_class(name, local)
    if name in ("SerList", "SerDict"):
        obj = cls(values[0], values[1])
        obj.extra = values[2]
        return obj
    obj = cls()
    for attr, value in zip(all_fields(name), values):
        setattr(obj, attr, value)
    return obj


def field_names(name):
    if name in ("SerList", "SerDict"):
        return ["x", "y", "extra"]
    return all_fields(name)
