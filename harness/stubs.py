"""
Standing stubs shared by the CrossHair harnesses.  Each stub replaces something
outside the repository by "any value its documented contract allows" and is
listed in the evidence of the checks that use it.
"""
import logging

logging.disable(logging.CRITICAL)

import jsonrpclib  # noqa: E402
import jsonrpclib.jsonrpc as jsonrpc  # noqa: E402
import jsonrpclib.SimpleJSONRPCServer as srv  # noqa: E402

STUB_NOTES = {
    "logging": "logging.disable(CRITICAL): log formatting is not the subject of any property",
    "token_codec": (
        "jsonrpc.jdumps/jloads (and the jsonrpclib.jdumps alias used by the server) replaced by a "
        "pure-Python token codec with the contract of a JSON codec on JSON-representable data: "
        "dumps(x) yields a text that loads maps back to normalise(x) (tuples->lists, fresh containers, "
        "leaf types/values preserved), loads of any other text raises ValueError; the client's batch "
        "framing '[ a,b ]' is understood.  The real C/Python json codec is trusted, not claimed."
    ),
    "parser_outcome": (
        "server-side jloads replaced by 'returns the JSON value of the obligation's shape, or raises "
        "an arbitrary Exception subclass': a body is represented by what the parser does with it"
    ),
    "loopback": "transport object whose request() calls the real dispatcher's _marshaled_dispatch",
    "uuid": "uuid.uuid4 replaced by a counter: each call returns a value never returned before",
}


def normalise(value):
    """
    What a JSON round trip does to JSON-representable data: tuples become lists,
    containers are fresh, leaves are the very same values.
    """
    if isinstance(value, (list, tuple)):
        return [normalise(item) for item in value]
    if isinstance(value, dict):
        return {key: normalise(item) for key, item in value.items()}
    return value


class TokenCodec(object):
    """
    Token codec (see STUB_NOTES['token_codec']).
    """

    def __init__(self):
        self.table = {}
        self.count = 0
        self.raise_on_load = None

    def dumps(self, obj, encoding=None):
        check_json_representable(obj)
        self.count += 1
        token = "@{0}@".format(self.count)
        self.table[token] = normalise(obj)
        return token

    def loads(self, text):
        if self.raise_on_load is not None:
            raise self.raise_on_load
        if type(text) is not str:
            raise ValueError("not a text")
        if text in self.table:
            return normalise(self.table[text])
        if text.startswith("[ ") and text.endswith(" ]"):
            parts = text[2:-2].split(",")
            if all(part in self.table for part in parts):
                return [normalise(self.table[part]) for part in parts]
        raise ValueError("Expecting value")

    def text_of(self, obj):
        """
        Registers a value the peer 'sent' and returns its text.
        """
        self.count += 1
        token = "@{0}@".format(self.count)
        self.table[token] = obj
        return token

    def install(self):
        jsonrpc.jdumps = self.dumps
        jsonrpc.jloads = self.loads
        jsonrpclib.jdumps = self.dumps
        jsonrpclib.jloads = self.loads
        return self


class NotJSON(TypeError):
    pass


def check_json_representable(obj, depth=0):
    """
    The real encoder raises TypeError on anything that is not JSON-representable;
    so does the stub (keeps 'result conversion fails' paths honest).
    """
    if obj is None or isinstance(obj, (bool, int, float, str)):
        return
    if isinstance(obj, (list, tuple)):
        for item in obj:
            check_json_representable(item, depth + 1)
        return
    if isinstance(obj, dict):
        for key, item in obj.items():
            if not (key is None or isinstance(key, (str, int, float, bool))):
                raise NotJSON("keys must be str, int, float, bool or None")
            check_json_representable(item, depth + 1)
        return
    raise NotJSON("Object of type {0} is not JSON serializable".format(type(obj).__name__))


class Loopback(object):
    """
    In-process transport: hands the request text to the real dispatcher.
    """

    def __init__(self, dispatcher, dispatch_method=None):
        self.dispatcher = dispatcher
        self.dispatch_method = dispatch_method
        self.log = []
        self.headers = []

    def push_headers(self, headers):
        self.headers.append(headers)

    def pop_headers(self, headers):
        self.headers.pop()

    def request(self, host, handler, request_body, verbose=0):
        reply = self.dispatcher._marshaled_dispatch(request_body, self.dispatch_method)
        self.log.append((host, handler, request_body, reply))
        return reply

    def close(self):
        pass


class Canned(object):
    """
    Transport that answers every request with a prepared text.
    """

    def __init__(self, replies):
        self.replies = list(replies)
        self.requests = []

    def push_headers(self, headers):
        pass

    def pop_headers(self, headers):
        pass

    def request(self, host, handler, request_body, verbose=0):
        self.requests.append(request_body)
        return self.replies.pop(0)

    def close(self):
        pass
