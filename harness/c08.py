"""
C08 harness: class translation is inert when disabled and validates names before
importing.

Real code executed: jsonrpc.load/loads/dump, jsonclass.load/dump, the server's
_marshaled_dispatch and the client's _run_request/_request.
Tripwires: jsonclass.load / jsonclass.dump (must not run when disabled), the
__import__ seen by jsonclass.load, construction of the canary class.
"""
import builtins

import harness.stubs  # noqa: F401
from harness.stubs import TokenCodec, Canned
from harness import jclasses
from harness.jcommon import same_json, snapshot, unchanged
from harness.disp import make_dispatcher, close_servers
import jsonrpclib.jsonclass as jsonclass
import jsonrpclib.jsonrpc as jsonrpc
import jsonrpclib.SimpleJSONRPCServer as srv
from jsonrpclib.config import Config

PASS = 100

VALID_NAMES = ("harness.jclasses.Plain", "harness.jclasses.Canary", "no_such_module_xyz.K", "harness.jclasses.Nope",
               "Plain", "a.b_c.D9", "_x._y")
INVALID_NAMES = ("", "bad name", "a-b.C", "a/b.C", "os;x", "é.K", "a.b\n", "\na.b", "a.b ", "a..b\x00", "a.b(", "a.b)",
                 "a,b", "a:b", "a+b", "a.b\r", "a.b\t", "ａ.b", "a.b ", "harness.jclasses.Canary\n", "$", "^a",
                 "a\\b", "a'b", 'a"b', "a.b#", "harness.jclasses.Canary ", " harness.jclasses.Canary", "a.b=c", "*")

_real_load = jsonclass.load
_real_dump = jsonclass.dump


class Trip(object):
    def __init__(self):
        self.imports = []
        self.loads = 0
        self.dumps = 0

    def install(self):
        trip = self

        def load(obj, classes=None):
            trip.loads += 1
            return _real_load(obj, classes)

        def dump(*args, **kwargs):
            trip.dumps += 1
            return _real_dump(*args, **kwargs)

        def imp(name, *args, **kwargs):
            trip.imports.append(name)
            return builtins.__import__(name, *args, **kwargs)

        jsonclass.load = load
        jsonclass.dump = dump
        jsonclass.__dict__["__import__"] = imp
        del jclasses.CONSTRUCTED[:]
        return self

    @staticmethod
    def uninstall():
        jsonclass.load = _real_load
        jsonclass.dump = _real_dump
        jsonclass.__dict__.pop("__import__", None)


def descriptor(shape, L):
    form = shape["desc"]
    if form == "wellformed":
        name = (VALID_NAMES + INVALID_NAMES)[shape["name"]]
        params = [] if shape.get("params", "list") == "list" else {}
        return {"__jsonclass__": [name, params], "attr": L["v"]}
    if form == "notlist":
        return {"__jsonclass__": L["s"], "attr": L["v"]}
    if form == "int":
        return {"__jsonclass__": L["v"]}
    if form == "null":
        return {"__jsonclass__": None}
    if form == "len0":
        return {"__jsonclass__": []}
    if form == "len1":
        return {"__jsonclass__": ["harness.jclasses.Canary"]}
    if form == "len3":
        return {"__jsonclass__": ["harness.jclasses.Plain", [], L["v"]], "attr": L["v"]}
    if form == "name_int":
        return {"__jsonclass__": [L["v"], []]}
    if form == "name_list":
        return {"__jsonclass__": [["harness.jclasses.Canary"], []]}
    if form == "name_null":
        return {"__jsonclass__": [None, []]}
    if form == "params_int":
        return {"__jsonclass__": ["harness.jclasses.Canary", L["v"]]}
    if form == "params_str":
        return {"__jsonclass__": ["harness.jclasses.Canary", L["s"]]}
    if form == "params_null":
        return {"__jsonclass__": ["harness.jclasses.Canary", None]}
    raise ValueError(form)


def embed(shape, desc, L):
    """
    The payload (a request or a response) holding the descriptor at some depth.
    """
    depth = shape["depth"]
    side = shape["side"]
    if side == "server":
        base = {"jsonrpc": "2.0", "id": L["i"], "method": "echo", "params": [L["v"]]}
        if depth == "top":
            return desc
        if depth == "param":
            base["params"] = [desc]
        elif depth == "nested":
            base["params"] = [{"deep": [L["v"], {"er": desc}]}]
        elif depth == "kw":
            base["params"] = {"a": desc}
        elif depth == "id":
            base["id"] = desc
        elif depth == "batch":
            return [base, {"jsonrpc": "2.0", "id": 2, "method": "echo", "params": [desc]}]
        return base
    base = {"jsonrpc": "2.0", "id": L["i"], "result": L["v"]}
    if depth == "top":
        return desc
    if depth == "param":
        base["result"] = desc
    elif depth == "nested":
        base["result"] = {"deep": [L["v"], {"er": desc}]}
    elif depth == "kw":
        base["result"] = [desc]
    elif depth == "id":
        base["error"] = None
        base["result"] = {"x": desc}
    elif depth == "batch":
        return [base, {"jsonrpc": "2.0", "id": 2, "result": desc}]
    return base


def concrete_if_formatted(shape, L):
    """
    Payloads that the server formats into an error message (version-less objects
    at top level, descriptors that are plain strings) get concrete leaves:
    str.format realises symbolic values and CrossHair would never exhaust.
    """
    if shape["entry"] == "server" and (shape["depth"] == "top" or shape["desc"] == "notlist"):
        return {"v": 7, "s": "xy", "i": 3}
    return L


def h_off(shape, L):
    """
    use_jsonclass disabled: nothing is interpreted.
    """
    L = concrete_if_formatted(shape, L)
    config = Config(use_jsonclass=False, version=shape.get("sver", 2.0))
    desc = descriptor(shape, L)
    payload = embed(shape, desc, L)
    snap = snapshot(payload)
    trip = Trip().install()
    try:
        codec = TokenCodec().install()
        entry = shape["entry"]
        if entry == "load":
            out = jsonrpc.load(payload, config)
            if out is not payload:
                return 1
        elif entry == "loads":
            out = jsonrpc.loads(codec.text_of(payload), config)
            if not same_json(out, payload):
                return 2
        elif entry == "server":
            dispatcher = make_dispatcher(shape, config)
            seen = []

            def echo(*args, **kwargs):
                seen.append((args, kwargs))
                return [list(args), kwargs]

            dispatcher.register_function(echo, "echo")
            raw = dispatcher._marshaled_dispatch(codec.text_of(payload))
            if shape["depth"] in ("param", "nested", "kw"):
                # the method receives the members verbatim and echoes them verbatim
                if len(seen) != 1:
                    return 3
                reply = codec.table.get(raw)
                if type(reply) is not dict or "result" not in reply:
                    return 4
                sent = payload["params"]
                want = [list(sent), {}] if isinstance(sent, list) else [[], sent]
                if not same_json(reply["result"], want):
                    return 5
        elif entry == "client":
            proxy = jsonrpc.ServerProxy("http://h/", transport=Canned([codec.text_of(payload)]), config=config)
            try:
                out = proxy._run_request("@req@")
            except Exception:  # noqa
                return 6
            if not same_json(out, payload):
                return 7
        if trip.loads or trip.dumps and entry != "server":
            return 8
        if trip.loads or trip.imports or jclasses.CONSTRUCTED:
            return 9
        if not unchanged(payload, snap):
            return 10
        return PASS
    except Exception:  # noqa
        return 11
    finally:
        trip.uninstall()
        close_servers()


def h_on(shape, L):
    """
    use_jsonclass enabled: empty/invalid class names are rejected before any
    import or construction; TranslationError when otherwise well-formed; the
    server answers -32700 and runs nothing.
    """
    L = concrete_if_formatted(shape, L)
    config = Config(use_jsonclass=True, version=shape.get("sver", 2.0))
    if shape.get("classes"):
        config.classes.add(jclasses.Plain)
    desc = descriptor(shape, L)
    payload = embed(shape, desc, L)
    wellformed = shape["desc"] == "wellformed"
    name = (VALID_NAMES + INVALID_NAMES)[shape["name"]] if wellformed else None
    invalid = wellformed and name in INVALID_NAMES
    trip = Trip().install()
    try:
        codec = TokenCodec().install()
        entry = shape["entry"]
        raised = None
        seen = []
        reply = None
        try:
            if entry == "jsonclass":
                _real_load(payload, config.classes)
            elif entry == "load":
                jsonrpc.load(payload, config)
            elif entry == "loads":
                jsonrpc.loads(codec.text_of(payload), config)
            elif entry == "server":
                dispatcher = make_dispatcher(shape, config)

                def echo(*args, **kwargs):
                    seen.append((args, kwargs))
                    return 0

                dispatcher.register_function(echo, "echo")
                raw = dispatcher._marshaled_dispatch(codec.text_of(payload))
                reply = codec.table.get(raw)
            elif entry == "client":
                proxy = jsonrpc.ServerProxy("http://h/", transport=Canned([codec.text_of(payload)]), config=config)
                proxy._run_request("@req@")
        except Exception as ex:  # noqa
            raised = ex
        if invalid:
            # rejected before any import or construction
            if trip.imports or jclasses.CONSTRUCTED:
                return 20
            if entry == "server":
                if raised is not None:
                    return 21
                if type(reply) is not dict or type(reply.get("error")) is not dict or reply["error"].get("code") != -32700:
                    return 22
                if seen:
                    return 23
                return PASS + 1
            if type(raised) is not jsonclass.TranslationError:
                return 24
            return PASS
        if not wellformed:
            # malformed descriptor: whatever the rejection, nothing may be built
            # from a name that was never validated, and the server still answers -32700
            if entry == "server":
                if raised is not None:
                    return 25
                if reply is not None and type(reply) is dict and reply.get("error") and reply["error"].get("code") == -32700 and seen:
                    return 26
                if shape["desc"] in ("notlist", "int", "null", "len0", "len1", "name_int", "name_list", "name_null", "params_int", "params_str", "params_null"):
                    if type(reply) is not dict or type(reply.get("error")) is not dict or reply["error"].get("code") != -32700:
                        return 27
                    if seen:
                        return 28
            if shape["desc"] in ("name_int", "name_list", "name_null", "int", "null", "len0") and (trip.imports or jclasses.CONSTRUCTED):
                return 29
            return PASS + 2
        # valid name: translation proceeds (reachability of the sinks)
        if name == "harness.jclasses.Canary" and entry != "server":
            return PASS + 3 if jclasses.CONSTRUCTED else 30
        return PASS + 4
    finally:
        trip.uninstall()
        close_servers()
