"""
C19 harness: transport faults are contained, and the proxy recovers.

Real code executed: ServerProxy._request/_run_request, dumps/loads,
check_for_errors, TransportMixIn.single_request/send_request/send_content/
parse_response, xmlrpc.client.Transport.request (its retry logic) and
make_connection/close, UnixTransport.make_connection, and the real
http.client.HTTPConnection / HTTPResponse state machine -- on top of a scripted
in-memory socket whose behaviour per exchange is chosen by a fault kind.
"""
import http.client

import harness.stubs  # noqa: F401
from harness.stubs import TokenCodec
import jsonrpclib.jsonrpc as jsonrpc
from jsonrpclib.config import Config

PASS = 100

KINDS = (
    "healthy",  # 0: 200, Content-Length, keep-alive
    "healthy_close",  # 1: 200, Connection: close
    "refuse",  # 2: connect() fails
    "close_before_reply",  # 3: EOF instead of a status line
    "reset",  # 4: ECONNRESET while sending
    "err_with_length",  # 5: 500 with Content-Length and a body, keep-alive
    "err_no_length_close",  # 6: 503, no length, body until close
    "bodiless_status",  # 7: 'HTTP/1.1 500 X' and nothing else, then close
    "truncated_body",  # 8: 200, Content-Length larger than what arrives, then close
    "empty_200",  # 9: 200 with Content-Length: 0
    "non_json_200",  # 10: 200 with an HTML body
    "reset_on_read",  # 11: ECONNRESET while reading the reply
    "err_404_length",  # 12: 404 with Content-Length: 0
    "no_content_204",  # 13: 204 No Content (bodiless by definition), keep-alive
    "created_201_empty",  # 14: 201 with Content-Length: 0
    "bodiless_status_open",  # 15: '503' with no length and no body, and the peer keeps the connection open
)


class WouldBlock(Exception):
    """the client tried to read data the peer will never send"""


class Peer(object):
    def __init__(self, kinds, codec):
        self.kinds = list(kinds)
        self.pos = 0
        self.codec = codec
        self.exchanges = []  # (kind, token sent in that request)
        self.connects = 0

    def peek(self):
        return self.kinds[self.pos] if self.pos < len(self.kinds) else 0

    def take(self):
        kind = self.peek()
        self.pos += 1
        return kind

    def script_done(self):
        return self.pos >= len(self.kinds)


class Reader(object):
    """
    File object returned by ScriptedSocket.makefile('rb'): reads the shared stream.
    """

    def __init__(self, sock):
        self.sock = sock
        self.closed = False

    def _avail(self, n):
        sock = self.sock
        if n == 0:
            return b""
        if sock.read_reset:
            sock.read_reset = False
            raise ConnectionResetError(104, "Connection reset by peer")
        if not sock.stream and not sock.eof:
            raise WouldBlock("read on a connection the peer keeps open and silent")
        if n is None or n < 0:
            if not sock.eof:
                raise WouldBlock("read-until-close on a kept-alive connection")
            n = len(sock.stream)
        data = sock.stream[:n]
        sock.stream = sock.stream[len(data):]
        return data

    def read(self, n=-1):
        return self._avail(n)

    def read1(self, n=-1):
        return self._avail(n)

    def readinto(self, buf):
        data = self._avail(len(buf))
        buf[: len(data)] = data
        return len(data)

    def readline(self, limit=-1):
        sock = self.sock
        if sock.read_reset:
            sock.read_reset = False
            raise ConnectionResetError(104, "Connection reset by peer")
        idx = sock.stream.find(b"\n")
        if idx < 0:
            if not sock.eof:
                raise WouldBlock("readline on a silent connection")
            idx = len(sock.stream) - 1
        end = idx + 1
        if limit is not None and limit >= 0:
            end = min(end, limit)
        data = sock.stream[:end]
        sock.stream = sock.stream[end:]
        return data

    def flush(self):
        pass

    def close(self):
        self.closed = True


class ScriptedSocket(object):
    def __init__(self, peer):
        self.peer = peer
        self.out = b""
        self.stream = b""
        self.eof = False
        self.read_reset = False
        self.closed = False

    # -- socket API used by http.client -----------------------------------------------
    def settimeout(self, value):
        pass

    def setsockopt(self, *args):
        pass

    def makefile(self, mode="rb", *args, **kwargs):
        return Reader(self)

    def close(self):
        self.closed = True

    def shutdown(self, how):
        pass

    def sendall(self, data):
        if self.closed:
            raise OSError(9, "Bad file descriptor")
        if self.eof:
            # the peer has closed: the kernel answers with a reset / broken pipe
            raise BrokenPipeError(32, "Broken pipe")
        if not self.out and self.peer.peek() == 4:
            self.peer.take()
            self.peer.exchanges.append((4, None))
            self.eof = True
            raise ConnectionResetError(104, "Connection reset by peer")
        self.out += bytes(data)
        self._maybe_respond()

    send = sendall

    # -- the peer ------------------------------------------------------------------------
    def _maybe_respond(self):
        head, sep, rest = self.out.partition(b"\r\n\r\n")
        if not sep:
            return
        length = 0
        for line in head.split(b"\r\n")[1:]:
            name, _, value = line.partition(b":")
            if name.strip().lower() == b"content-length":
                length = int(value.strip())
        if len(rest) < length:
            return
        body = rest[:length]
        self.out = rest[length:]
        kind = self.peer.take()
        text = body.decode("utf-8")
        request = self.peer.codec.table.get(text)
        token = None
        reply_text = "{}"
        if isinstance(request, dict):
            params = request.get("params")
            token = params[0] if params else None
            reply = {"jsonrpc": "2.0", "id": request.get("id"), "result": token}
            reply_text = self.peer.codec.text_of(reply)
        self.peer.exchanges.append((kind, token))
        payload = reply_text.encode("utf-8")

        def response(status, reason, headers, data):
            lines = ["HTTP/1.1 {0} {1}".format(status, reason)] + headers + ["", ""]
            return "\r\n".join(lines).encode("ascii") + data

        if kind == 0:
            self.stream += response(200, "OK", ["Content-Type: application/json-rpc", "Content-Length: %d" % len(payload)], payload)
        elif kind == 1:
            self.stream += response(200, "OK", ["Connection: close", "Content-Length: %d" % len(payload)], payload)
            self.eof = True
        elif kind == 3:
            self.eof = True
        elif kind == 5:
            err = b"internal error page"
            self.stream += response(500, "Internal Server Error", ["Content-Length: %d" % len(err)], err)
        elif kind == 6:
            self.stream += response(503, "Service Unavailable", ["Connection: close"], b"<html>busy</html>")
            self.eof = True
        elif kind == 7:
            self.stream += b"HTTP/1.1 500 Internal Server Error\r\n\r\n"
            self.eof = True
        elif kind == 8:
            self.stream += response(200, "OK", ["Content-Length: %d" % (len(payload) + 10)], payload)
            self.eof = True
        elif kind == 9:
            self.stream += response(200, "OK", ["Content-Length: 0"], b"")
        elif kind == 10:
            page = b"<html>not json</html>"
            self.stream += response(200, "OK", ["Content-Type: text/html", "Content-Length: %d" % len(page)], page)
        elif kind == 11:
            self.read_reset = True
            self.eof = True
        elif kind == 12:
            self.stream += response(404, "Not Found", ["Content-Length: 0"], b"")
        elif kind == 13:
            self.stream += response(204, "No Content", [], b"")
        elif kind == 14:
            self.stream += response(201, "Created", ["Content-Length: 0"], b"")
        elif kind == 15:
            self.stream += b"HTTP/1.1 503 Service Unavailable\r\n\r\n"
        else:
            # 2 (refuse) and 4 (reset) are consumed at connect / first send; if they
            # come up here (mid-connection) the peer simply drops the connection
            self.eof = True


_state = {"peer": None}


def scripted_connect(self):
    peer = _state["peer"]
    peer.connects += 1
    if peer.peek() == 2:
        peer.take()
        peer.exchanges.append((2, None))
        raise ConnectionRefusedError(111, "Connection refused")
    self.sock = ScriptedSocket(peer)


class FakeUUID(object):
    def __init__(self):
        self.calls = 0

    def uuid4(self):
        self.calls += 1
        return "id-{0}".format(self.calls)


def h_faults(shape, L):
    """
    shape: {"unix": bool, "nfaults": n, "after": m}; leaves k0..k(n-1) fault kinds,
    t0.. tokens.  Calls: one per scripted slot, then `after` calls against a
    healthy peer.
    """
    codec = TokenCodec().install()
    jsonrpc.uuid = FakeUUID()
    n = shape["nfaults"]
    kinds = [L["k{0}".format(i)] for i in range(n)]
    peer = Peer(kinds, codec)
    _state["peer"] = peer
    old_tcp = http.client.HTTPConnection.connect
    old_unix = jsonrpc.UnixHTTPConnection.connect
    http.client.HTTPConnection.connect = scripted_connect
    jsonrpc.UnixHTTPConnection.connect = scripted_connect
    try:
        if shape.get("unix"):
            proxy = jsonrpc.ServerProxy("unix+http://%2Ftmp%2Fsock/x", config=Config())
            url = None
        else:
            proxy = jsonrpc.ServerProxy("http://host:80/rpc", config=Config())
            url = "host:80/rpc"
        ncalls = n + shape["after"]
        tokens = [L["t{0}".format(i)] for i in range(ncalls)]
        failures_after_script = 0
        first_success_after = None
        for i in range(ncalls):
            script_done_before = peer.script_done()
            seen_before = len(peer.exchanges)
            try:
                value = proxy.echo(tokens[i])
                outcome = ("ret", value)
            except WouldBlock:
                return 9
            except Exception as ex:  # noqa
                outcome = ("exc", ex)
            mine = peer.exchanges[seen_before:]
            if outcome[0] == "ret":
                value = outcome[1]
                if type(value) is not type(tokens[i]) or value != tokens[i]:
                    return 1  # a stale or foreign response
                for j in range(ncalls):
                    if j != i and False:
                        pass
            else:
                ex = outcome[1]
                if isinstance(ex, jsonrpc.TransportError):
                    statuses = {5: 500, 6: 503, 7: 500, 12: 404, 13: 204, 14: 201, 15: 503}
                    allowed = [statuses[k] for k, _ in mine if k in statuses]
                    if ex.errcode not in allowed:
                        return 2
                    if url is not None and ex.url != url:
                        return 3
                    if ex.url is None or ex.errcode is None:
                        return 4
                elif (mine and mine[-1][0] in (5, 6, 7, 12, 13, 14, 15)
                      and not isinstance(ex, (http.client.HTTPException, OSError))):
                    # the last thing the peer said was a non-200 status: TransportError expected.
                    # (A connection-state error -- the previous, bodiless reply was never consumed --
                    # is the one tolerated failure after a fault and is accounted for below.)
                    return 5
            if script_done_before:
                if outcome[0] == "exc":
                    failures_after_script += 1
                    if first_success_after is not None:
                        return 6  # failed again after having recovered
                elif first_success_after is None:
                    first_success_after = i
        if failures_after_script > 1:
            return 7
        if shape["after"] >= 2 and first_success_after is None:
            return 8
        return PASS
    finally:
        http.client.HTTPConnection.connect = old_tcp
        jsonrpc.UnixHTTPConnection.connect = old_unix
        _state["peer"] = None
