"""
Engine TS, replay: drives the REAL jsonrpclib/threadpool.py (real threads, real
threading/queue primitives) along a schedule found on the model.

A one-baton scheduler: every controlled thread is traced (sys.settrace /
threading.settrace) and parks before each source line of threadpool.py, of its
client program and of the scenario's task/callback functions, until the
scheduler grants it one line.  A model step names the thread and the lines its
nodes stand for; the scheduler checks that the real thread is parked at that
very line (conformance) before letting it run to its next line.  Because the
model only schedules enabled steps, a granted blocking call returns at once
(time-outs are taken for real with a 50 ms pool time-out).
"""
import importlib.util
import os
import sys
import threading
import time

from .lower import NONE, SENTINEL

POOL_TIMEOUT = 0.05
GUARD_S = 8.0


class ReplayMismatch(Exception):
    pass


class Baton(object):
    def __init__(self, files):
        self.files = files  # traced file names
        self.cond = threading.Condition()
        self.threads = {}  # real thread ident -> model tid
        self.state = {}  # tid -> ("parked", file, line) | ("running",) | ("done",)
        self.grants = {}  # tid -> number of grants issued
        self.taken = {}  # tid -> number of grants consumed
        self.free = False
        self.next_worker = None
        self.log = []

    # -- tracer side -----------------------------------------------------------------
    def tracer(self, frame, event, arg):
        code = frame.f_code
        if code.co_filename not in self.files:
            return None
        if event == "call":
            if code.co_name == "__init__":
                # constructors of fresh, not yet shared objects run within the
                # caller's statement (the model allocates atomically)
                return None
            return self.tracer
        if event == "line":
            self.park(code.co_filename, frame.f_lineno, code.co_name)
        return self.tracer

    def park(self, filename, line, func):
        if self.free:
            return
        # keyed by the Thread object (kept alive here): OS thread idents are reused
        ident = threading.current_thread()
        with self.cond:
            tid = self.threads.get(ident)
            if tid is None:
                # a thread created by the pool: next free worker slot
                tid = self.next_worker
                self.next_worker += 1
                self.threads[ident] = tid
                self.grants.setdefault(tid, 0)
                self.taken.setdefault(tid, 0)
            self.state[tid] = ("parked", filename, line, func)
            self.cond.notify_all()
            while not self.free and self.grants[tid] <= self.taken[tid]:
                self.cond.wait(0.5)
            self.taken[tid] += 1
            self.state[tid] = ("running",)
            self.cond.notify_all()

    def thread_done(self, tid):
        with self.cond:
            self.state[tid] = ("done",)
            self.cond.notify_all()

    # -- scheduler side ----------------------------------------------------------------
    def wait_parked(self, tid, guard=GUARD_S):
        deadline = time.time() + guard
        with self.cond:
            while True:
                st = self.state.get(tid)
                if st is not None and st[0] in ("parked", "done"):
                    return st
                left = deadline - time.time()
                if left <= 0:
                    return st or ("unknown",)
                self.cond.wait(min(left, 0.2))

    def grant(self, tid):
        with self.cond:
            self.grants[tid] = self.grants.get(tid, 0) + 1
            self.state[tid] = ("running",)
            self.cond.notify_all()

    def release_all(self):
        with self.cond:
            self.free = True
            self.cond.notify_all()


def load_module(source, filename):
    """
    The module under replay: the given rendering of threadpool.py (see
    driver.read_source) compiled under `filename` so that frames are recognisable.
    """
    import types

    mod = types.ModuleType("verif_threadpool_under_replay")
    mod.__file__ = filename
    exec(compile(source, filename, "exec"), mod.__dict__)
    return mod, filename


SCENARIO_SRC = '''
def make_task(i, kind, rec, gates, RES, EXC):
    def task(*args, **kwargs):
        rec.begin(i)
        return rec.finish(i, kind, gates, RES, EXC)
    return task

def make_cb(j, kind, rec):
    if kind == "arity":
        def cb(*args):
            return rec.callback(j, kind, *args)
    else:
        def cb(result, exception, extra):
            return rec.callback(j, kind, result, exception, extra)
    return cb
'''


class Recorder(object):
    def __init__(self, ntasks, nregs):
        self.lock = threading.Lock()
        self.exec_count = [0] * ntasks
        self.finished = [False] * ntasks
        self.start_order = []
        self.running = 0
        self.max_running = 0
        self.cb_calls = []  # (j, result, exception, extra)

    def begin(self, i):
        with self.lock:
            self.exec_count[i] += 1
            self.start_order.append(i)
            self.running += 1
            self.max_running = max(self.max_running, self.running)

    def finish(self, i, kind, gates, RES, EXC):
        if kind.startswith("gate"):
            gates[int(kind[4:] or 0)].wait()
        with self.lock:
            self.running -= 1
            self.finished[i] = True
        if kind.startswith("open"):
            gates[int(kind[4:] or 0)].set()
        if kind == "raise_base":
            raise TaskAbort("task {0} aborts its thread".format(i))
        if kind == "raise":
            raise EXC[i]
        return RES[i]

    def callback(self, j, kind, result, exception, extra):
        with self.lock:
            self.cb_calls.append((j, result, exception, extra))
        if kind == "raise":
            raise RuntimeError("callback {0} fails".format(j))
        if kind == "arity":
            # same effect as calling a callable of the wrong arity, but observable
            raise TypeError("callback {0} takes 1 positional argument but 3 were given".format(j))
        return None


class CallbackError(Exception):
    pass


class TaskAbort(BaseException):
    """a task leaving through a non-Exception BaseException (SystemExit-like)"""


def replay(source, filename, universe, client_programs, steps, pool_args=None, timeout_literal=POOL_TIMEOUT, start_failures=None):
    """
    steps: [(tid, choice, [nodes])] from bmc.trim_schedule.
    Returns a dict of observations; raises ReplayMismatch if the real code does
    not follow the model's schedule.
    """
    U = universe
    mod, path = load_module(source, filename)
    # left: how many start attempts the model still lets fail (None: no limit) -- mirrors `start_failures_left`
    fail_start = {"next": False, "left": start_failures}

    class FailingThread(threading.Thread):
        """threading.Thread whose start() fails on demand (model choice 'start failure')"""

        def start(self):
            if fail_start["next"]:
                fail_start["next"] = False
                raise RuntimeError("can't start new thread")
            return threading.Thread.start(self)

    class ThreadingProxy(object):
        def __getattr__(self, name):
            if name == "Thread":
                return FailingThread
            return getattr(threading, name)

    mod.threading = ThreadingProxy()
    files = {path, "<scenario>"} | {"<client{0}>".format(c) for c in range(U.C)}
    baton = Baton(files)
    baton.next_worker = U.C
    rec = Recorder(U.M, U.R)
    RES = [("result-of-task", i) for i in range(U.M)]
    EXC = [ValueError("exception-of-task-{0}".format(i)) for i in range(U.M)]
    EXTRA = [("extra", j) for j in range(U.R)]
    gates = [threading.Event() for _ in range(U.G)]
    ns = {}
    exec(compile(SCENARIO_SRC, "<scenario>", "exec"), ns)
    import functools

    tasks = [ns["make_task"](i, U.task_kinds[i], rec, gates, RES, EXC) for i in range(U.M)]
    for i in range(U.M):
        if getattr(U, "task_noname", [False] * U.M)[i]:
            tasks[i] = functools.partial(tasks[i])  # a callable without __name__
    cbs = [ns["make_cb"](j, U.cb_kinds[j], rec) for j in range(U.R)]
    for i, t in enumerate(tasks):
        if not isinstance(t, functools.partial):
            t.__name__ = "task{0}".format(i)
    env = {"TIMEOUT": "timeout", "TMO": timeout_literal, "NOWAIT": 0.0, "stop_returned": False, "pool_serving": False,
           "shutdown_request": False, "socket_closed": False}
    pool = None
    if pool_args is not None:
        pool = mod.ThreadPool(U.max_threads, U.min_threads, U.queue_size,
                              timeout=None if U.timeout_none else POOL_TIMEOUT, logname="verif-replay")
        env["pool"] = pool
    futures = [mod.FutureResult() for _ in range(U.M)] if pool is None else []
    for i in range(U.M):
        env["TASK{0}".format(i)] = tasks[i]
        if pool is None:
            env["FUT{0}".format(i)] = futures[i]
    for j in range(U.R):
        env["CB{0}".format(j)] = cbs[j]
        env["EXTRA{0}".format(j)] = EXTRA[j]
    for g in range(U.G):
        env["GATE{0}".format(g)] = gates[g]
    client_ns = []
    client_threads = []
    uncaught = {}

    def client_main(c, text):
        ident = threading.current_thread()
        with baton.cond:
            baton.threads[ident] = c
            baton.grants.setdefault(c, 0)
            baton.taken.setdefault(c, 0)
        local = {}
        client_ns.append((c, local))
        sys.settrace(baton.tracer)
        try:
            # shared globals (pool, tasks, gates, marks declared `global`), private locals
            exec(compile(text, "<client{0}>".format(c), "exec"), env, local)
        except BaseException as ex:  # noqa
            uncaught[c] = ex
        finally:
            sys.settrace(None)
            baton.thread_done(c)

    import logging

    logging.disable(logging.CRITICAL)
    threading.settrace(baton.tracer)
    threading.excepthook = lambda args: None  # worker threads killed by TaskAbort: no traceback noise
    mismatch = None
    executed = 0
    try:
        for c, text in enumerate(client_programs):
            th = threading.Thread(target=client_main, args=(c, text), daemon=True, name="verif-client{0}".format(c))
            client_threads.append(th)
            th.start()
        for tid, choice, path in steps:
            for node in path:
                if node.line is None:
                    continue
                if isinstance(node.line, tuple):
                    want = ("<scenario>", None)
                elif node.file.startswith("<client"):
                    want = (node.file, node.line)
                else:
                    want = (path_of(node, path_default=path and None) or mod.__file__, node.line)
                skipped = 0
                while True:
                    st = baton.wait_parked(tid)
                    if st[0] != "parked":
                        raise ReplayMismatch("thread {0} is {1}, model expects line {2} ({3})".format(tid, st[0], node.line, node.label))
                    here = (st[1], st[2])
                    ok = (here[0] == want[0]) and (want[1] is None or here[1] == want[1])
                    if ok:
                        break
                    # an extra line event (multi-line statement, decorator, ...): let it pass
                    skipped += 1
                    if skipped > 6:
                        raise ReplayMismatch("thread {0} parked at {1}:{2}, model expects {3}:{4} ({5})".format(
                            tid, os.path.basename(here[0]), here[1], os.path.basename(str(want[0])), want[1], node.label))
                    baton.grant(tid)
                if node.label == "Thread.start" and choice == 1 and (fail_start["left"] is None or fail_start["left"] > 0):
                    fail_start["next"] = True
                    if fail_start["left"] is not None:
                        fail_start["left"] -= 1
                baton.grant(tid)
                executed += 1
                baton.log.append((tid, want[1], node.label))
            # after the macro-step the thread runs to its next line (or finishes / blocks)
            st = baton.wait_parked(tid, guard=GUARD_S)
            if st[0] not in ("parked", "done"):
                # blocked inside a primitive: legitimate only if the model says the thread is now not enabled
                pass
    except ReplayMismatch as ex:
        mismatch = str(ex)
    # observations at the end of the schedule
    time.sleep(0.05)
    obs = {
        "exec_count": list(rec.exec_count),
        "finished": list(rec.finished),
        "start_order": list(rec.start_order),
        "max_running": rec.max_running,
        "running": rec.running,
        "cb_calls": [(j, describe(r, RES, EXC, EXTRA), describe(e, RES, EXC, EXTRA), describe(x, RES, EXC, EXTRA)) for j, r, e, x in rec.cb_calls],
        "lines_executed": executed,
        "mismatch": mismatch,
        "clients": {},
        "uncaught": {c: describe(ex, RES, EXC, EXTRA) for c, ex in uncaught.items()},
        "client_done": {c: (baton.state.get(c, ("?",))[0] == "done") for c in range(U.C)},
    }
    for c, local in client_ns:
        vals = {}
        for key, value in local.items():
            if key in env or key.startswith("__"):
                continue
            vals[key] = describe(value, RES, EXC, EXTRA)
        obs["clients"][c] = vals
    if pool is not None:
        priv = {}
        for attr in ("_ThreadPool__nb_threads", "_ThreadPool__nb_active_threads", "_ThreadPool__nb_pending_task"):
            priv[attr] = getattr(pool, attr, None)
        priv["queue_len"] = pool._queue.qsize()
        priv["unfinished"] = pool._queue.unfinished_tasks
        priv["stopped"] = pool._done_event.is_set()
        priv["threads_alive"] = sum(1 for t in threading.enumerate() if t.name.startswith("verif-replay"))
        obs["pool"] = priv
    # clean up: let everything run
    threading.settrace(None)
    for g in gates:
        g.set()
    baton.release_all()
    for th in client_threads:
        th.join(2.0)
    if pool is not None:
        try:
            stopper = threading.Thread(target=pool.stop, daemon=True)
            stopper.start()
            stopper.join(5.0)
        except Exception:  # noqa
            pass
    logging.disable(logging.NOTSET)
    return obs


def path_of(node, path_default=None):
    f = node.file
    if f and not f.startswith("<"):
        return f
    return path_default


def describe(value, RES, EXC, EXTRA):
    if value is None or isinstance(value, (bool, int, float, str)):
        return value
    for i, r in enumerate(RES):
        if value is r:
            return "result_of_task{0}".format(i)
    for i, e in enumerate(EXC):
        if value is e:
            return "exc_of_task{0}".format(i)
    for j, x in enumerate(EXTRA):
        if value is x:
            return "extra{0}".format(j)
    if isinstance(value, BaseException):
        return "{0}: {1}".format(type(value).__name__, value)
    return type(value).__name__
