"""
Engine TS, core: values that are either concrete (Python) or symbolic (z3),
transition-system nodes, the step function shared by the concrete interpreter
(prefix execution, counterexample validation) and the z3 unrolling (BMC).

Everything integer-like is a signed bit-vector of BW bits in the symbolic world
(object ids and small counters); every counter update is range-checked by an
overflow flag, so that wrap-around cannot hide behind an `unsat`.
"""
import z3

BW = 11
LO, HI = -(1 << (BW - 1)), (1 << (BW - 1)) - 1


def is_sym(x):
    return isinstance(x, z3.ExprRef)


def lift(x):
    """python value -> z3 value"""
    if is_sym(x):
        return x
    if isinstance(x, bool):
        return z3.BoolVal(x)
    return z3.BitVecVal(int(x), BW)


def ite(c, a, b):
    if not is_sym(c):
        return a if c else b
    if not is_sym(a) and not is_sym(b) and type(a) is type(b) and a == b:
        return a
    a, b = lift(a), lift(b)
    if z3.is_bool(a) != z3.is_bool(b):
        # a variable that holds a flag on one path and an id/int on another
        a, b = to_bv(a), to_bv(b)
    if a.eq(b):
        return a
    return z3.If(c, a, b)


def to_bv(x):
    x = lift(x)
    if z3.is_bool(x):
        return z3.If(x, z3.BitVecVal(1, BW), z3.BitVecVal(0, BW))
    return x


def and_(*xs):
    out = []
    for x in xs:
        if not is_sym(x):
            if not x:
                return False
            continue
        out.append(x)
    if not out:
        return True
    return out[0] if len(out) == 1 else z3.And(*out)


def or_(*xs):
    out = []
    for x in xs:
        if not is_sym(x):
            if x:
                return True
            continue
        out.append(x)
    if not out:
        return False
    return out[0] if len(out) == 1 else z3.Or(*out)


def not_(x):
    return z3.Not(x) if is_sym(x) else (not x)


def _bin(a, b, pyop, zop):
    if not is_sym(a) and not is_sym(b):
        return pyop(a, b)
    a, b = lift(a), lift(b)
    if z3.is_bool(a) != z3.is_bool(b):
        a, b = to_bv(a), to_bv(b)
    return zop(a, b)


def eq(a, b):
    return _bin(a, b, lambda x, y: x == y, lambda x, y: x == y)


def ne(a, b):
    return not_(eq(a, b))


def lt(a, b):
    return _bin(a, b, lambda x, y: x < y, lambda x, y: x < y)


def le(a, b):
    return _bin(a, b, lambda x, y: x <= y, lambda x, y: x <= y)


def gt(a, b):
    return lt(b, a)


def ge(a, b):
    return le(b, a)


def add(a, b):
    return _bin(a, b, lambda x, y: x + y, lambda x, y: x + y)


def sub(a, b):
    return _bin(a, b, lambda x, y: x - y, lambda x, y: x - y)


def truthy(x):
    """Python truthiness of an int-like or bool-like value"""
    if is_sym(x):
        if z3.is_bool(x):
            return x
        return x != z3.BitVecVal(0, BW)
    return bool(x)


def overflows(a, b, plus=True):
    """does a (+/-) b leave [LO, HI]?"""
    if not is_sym(a) and not is_sym(b):
        r = a + b if plus else a - b
        return not (LO <= r <= HI)
    a, b = lift(a), lift(b)
    if plus:
        return z3.Or(z3.Not(z3.BVAddNoOverflow(a, b, True)), z3.Not(z3.BVAddNoUnderflow(a, b)))
    return z3.Or(z3.Not(z3.BVSubNoOverflow(a, b)), z3.Not(z3.BVSubNoUnderflow(a, b, True)))


class Node(object):
    """
    One step of one thread.  `run(env)` returns a list of outcomes
    (cond, updates, next_pc); the node is enabled iff some cond holds.
    line: source line of /repo (or of the generated scenario module) whose
    execution this step stands for; None for internal steps.
    """

    __slots__ = ("id", "line", "file", "label", "run", "kind", "locks", "mover", "reads", "writes", "rlock")

    def __init__(self, nid, line, label, run, file=None, kind="stmt"):
        self.id = nid
        self.line = line
        self.label = label
        self.run = run
        self.file = file
        self.kind = kind
        self.locks = ()  # locks statically held when the node runs
        self.rlock = False
        self.mover = "N"  # N non-mover, B both-mover, R right-mover (acquire), L left-mover (release)
        self.reads = set()
        self.writes = set()


class Env(object):
    """
    Read access to a state for the thread being stepped.
    """

    __slots__ = ("state", "tid", "choice", "system")

    def __init__(self, system, state, tid, choice):
        self.system = system
        self.state = state
        self.tid = tid
        self.choice = choice

    def g(self, name):
        return self.state[name]

    def l(self, name):
        return self.state["T{0}.{1}".format(self.tid, name)]

    def lname(self, name):
        return "T{0}.{1}".format(self.tid, name)

    def arr(self, base, idx, size):
        """read base[idx] for a possibly symbolic idx over `size` slots"""
        if not is_sym(idx):
            return self.state["{0}[{1}]".format(base, idx)]
        val = self.state["{0}[{1}]".format(base, size - 1)]
        for i in range(size - 2, -1, -1):
            val = ite(eq(idx, i), self.state["{0}[{1}]".format(base, i)], val)
        return val


def arr_write(upd, env, base, idx, size, value):
    """updates for base[idx] := value"""
    if not is_sym(idx):
        upd["{0}[{1}]".format(base, idx)] = value
        return
    for i in range(size):
        name = "{0}[{1}]".format(base, i)
        old = upd.get(name, env.state[name])
        upd[name] = ite(eq(idx, i), value, old)


class System(object):
    """
    Nodes + threads + initial state.
    threads: list of dicts(name, entry pc); pc variable "T<i>.pc"; pc -1 = finished
    """

    DONE = -1

    def __init__(self):
        self.nodes = []
        self.threads = []
        self.init = {}
        self.meta = {}

    def new_node(self, line, label, run, file=None, kind="stmt"):
        node = Node(len(self.nodes), line, label, run, file, kind)
        self.nodes.append(node)
        return node.id

    # ------------------------------------------------------------------
    # Reduction (Lipton): thread-local steps and steps that only touch data
    # protected by a lock the thread holds are both-movers, lock acquisition is
    # a right-mover, release a left-mover; a sequence  (R|B)* [any] (B|L)*  of
    # one thread is executed as one atomic macro-step.  "Protected by lock X" is
    # computed from the lowered code itself: a variable is protected iff every
    # node that accesses it runs with X statically held.
    def classify(self, probe_tid=0):
        class Rec(dict):
            def __init__(self, base):
                dict.__init__(self, base)
                self.read = set()

            def __getitem__(self, key):
                self.read.add(key)
                return dict.__getitem__(self, key)

        sym = {}
        for key, val in self.init.items():
            if isinstance(val, bool):
                sym[key] = z3.Bool("probe!" + key)
            else:
                sym[key] = z3.BitVec("probe!" + key, BW)
        prefix = "T{0}.".format(probe_tid)
        # every thread-local exists for the probing thread
        for key in list(sym):
            if key.startswith("T") and "." in key:
                rest = key.split(".", 1)[1]
                sym.setdefault(prefix + rest, sym[key])
        for node in self.nodes:
            rec = Rec(sym)
            env = Env(self, rec, probe_tid, z3.BitVec("probe!choice", BW))
            writes = set()
            try:
                for cond, upd, nxt in node.run(env):
                    writes |= set(upd)
            except Exception:  # noqa
                node.reads, node.writes = {"<unknown>"}, {"<unknown>"}
                continue
            norm = lambda k: ("L:" + k[len(prefix):]) if k.startswith(prefix) else k  # noqa
            node.reads = {norm(k) for k in rec.read}
            node.writes = {norm(k) for k in writes}
        # sticky monitor flags (x := x or c) commute with everything; variables no
        # node ever writes are constants: neither restricts movers
        ignore = set(getattr(self, "sticky_flags", ()))
        written = set()
        for node in self.nodes:
            written |= node.writes
        for node in self.nodes:
            node.reads = {k for k in node.reads if k.startswith("L:") or (k in written and k not in ignore) or k == "<unknown>"}
            node.writes = {k for k in node.writes if k not in ignore}
        users = {}
        for node in self.nodes:
            for key in node.reads | node.writes:
                if not key.startswith("L:"):
                    users.setdefault(key, []).append(node)
        protected = {}
        for key, nodes in users.items():
            common = None
            for node in nodes:
                held = set(node.locks)
                common = held if common is None else (common & held)
            protected[key] = common or set()
        self.protected = protected
        for node in self.nodes:
            if node.kind == "with-enter" and node.rlock:
                node.mover = "R"
                continue
            if node.kind == "with-exit" and node.rlock:
                node.mover = "L"
                continue
            if node.kind in ("thread-exit", "task-begin", "task-end", "callback"):
                node.mover = "N"
                continue
            shared = [k for k in (node.reads | node.writes) if not k.startswith("L:")]
            if "<unknown>" in shared:
                node.mover = "N"
                continue
            ok = True
            for key in shared:
                if not (protected.get(key, set()) & set(node.locks)):
                    ok = False
                    break
            node.mover = "B" if ok else "N"
        return protected

    MAX_CHAIN = 40

    def macro(self, state, tid, choice):
        """
        Outcomes of one macro-step of thread tid from `state`:
        list of (cond, updates, next_pc, path) where path is the list of node ids
        executed.  Enabled iff some cond holds.
        """
        if not getattr(self, "fuse", True):
            pc = state["T{0}.pc".format(tid)]
            raise RuntimeError("macro() without fusion is handled by the caller")
        results = []
        pcvar = "T{0}.pc".format(tid)

        class Over(dict):
            pass

        def view(upd):
            if not upd:
                return state
            merged = Over(state)
            merged.update(upd)
            return merged

        def expand(pc, cond, upd, path, phase, first):
            """phase 1: before the central step; phase 2: after it"""
            if pc < 0 or len(path) >= self.MAX_CHAIN:
                results.append((cond, upd, pc, path))
                return
            node = self.nodes[pc]
            if not first:
                if phase == 1:
                    # after (R|B)* : any node may serve as the central step, but
                    # only continue into it if we are still in the prefix
                    pass
                elif node.mover not in ("B", "L") and not (node.line is None and node.kind in ("internal", "thread-exit")):
                    # (steps without a line event of their own -- the rest of a line
                    # after a call returned, the end of a thread -- always belong to
                    # the preceding line: that is the granularity of the claim and
                    # of the replay scheduler)
                    results.append((cond, upd, pc, path))
                    return
                if pc in path:
                    # a loop of fused nodes: stop here
                    results.append((cond, upd, pc, path))
                    return
            env = Env(self, view(upd), tid, choice)
            outs = node.run(env)
            covered = []
            for c, u, nxt in outs:
                full = and_(cond, c)
                if not is_sym(full) and not full:
                    continue
                covered.append(c)
                merged = dict(upd)
                merged.update(u)
                nphase = phase
                if phase == 1 and node.mover not in ("R", "B"):
                    nphase = 2
                if phase == 1 and node.mover in ("R", "B"):
                    # still in the prefix: the next node may be anything
                    expand(nxt, full, merged, path + [pc], 1, False)
                else:
                    expand(nxt, full, merged, path + [pc], nphase, False)
            if not first:
                # where the node is not enabled the macro-step ends in front of it
                rest = and_(cond, not_(or_(*covered))) if covered else cond
                if is_sym(rest) or rest:
                    results.append((rest, upd, pc, path))

        pc0 = state[pcvar]
        if is_sym(pc0):
            raise RuntimeError("macro() needs a concrete pc; use macro_at")
        expand(pc0, True, {}, [], 1, True)
        return results

    def macro_at(self, state, tid, pc, choice):
        """same as macro() for an assumed pc (the caller conjoins pc == value)"""
        shadow = dict(state)
        shadow["T{0}.pc".format(tid)] = pc
        return self.macro(shadow, tid, choice)

    def step_concrete(self, state, tid, choice=0):
        """
        Executes one macro-step of thread tid on a concrete state.
        Returns (new_state, path of nodes) or None if the thread is not enabled.
        """
        pc = state["T{0}.pc".format(tid)]
        if pc < 0:
            return None
        for cond, upd, nxt, path in self.macro(state, tid, choice):
            if is_sym(cond):
                cond = z3.is_true(z3.simplify(cond))
            if cond:
                new = dict(state)
                for k, v in upd.items():
                    if is_sym(v):
                        v = z3.simplify(v)
                        v = z3.is_true(v) if z3.is_bool(v) else v.as_signed_long()
                    new[k] = v
                new["T{0}.pc".format(tid)] = nxt
                return new, [self.nodes[n] for n in path]
        return None

    def enabled_concrete(self, state, tid):
        for choice in range(4):
            if self.step_concrete(state, tid, choice) is not None:
                return True
        return False

    def run_schedule(self, state, schedule):
        """
        schedule: list of (tid, choice).  Returns (final state, trace of nodes)
        """
        trace = []
        for tid, choice in schedule:
            res = self.step_concrete(state, tid, choice)
            if res is None:
                raise RuntimeError("thread {0} not enabled at pc {1}".format(tid, state["T{0}.pc".format(tid)]))
            state, path = res
            trace.append((tid, path))
        return state, trace


class Unroller(object):
    """
    z3 unrolling of the interleaved system from a concrete (or partly symbolic)
    start state.
    """

    STUTTER = 15

    def __init__(self, system, state0, nchoices=4):
        if len(system.nodes) >= HI:
            raise RuntimeError("too many nodes for the program-counter width")
        self.system = system
        self.states = [dict(state0)]
        self.sched = []
        self.choice = []
        self.constraints = []
        self.nthreads = len(system.threads)
        self.pcs = []
        start = {}
        for t in range(self.nthreads):
            pc = state0["T{0}.pc".format(t)]
            start[t] = {pc}
        self.pcs.append(start)
        self.nchoices = nchoices
        self.transitions = 0
        self.any_enabled = []
        self.enabled_by_thread = []

    def extend(self):
        k = len(self.sched)
        system = self.system
        S = self.states[-1]
        s = z3.BitVec("sched_%d" % k, 4)
        c = z3.BitVec("choice_%d" % k, BW)
        self.sched.append(s)
        self.choice.append(c)
        self.constraints.append(z3.And(c >= 0, c < self.nchoices))
        writes = {}  # var -> list of (cond, value)
        enabled = []
        newpcs = {}
        spawned = {}
        for t in range(self.nthreads):
            pcvar = "T{0}.pc".format(t)
            pcval = S[pcvar]
            newpcs[t] = set(self.pcs[-1][t])
            t_enabled = []
            for pc in sorted(self.pcs[-1][t]):
                if pc < 0:
                    continue
                at = eq(pcval, pc)
                if not is_sym(at) and not at:
                    continue
                for cond, upd, nxt, path in system.macro_at(S, t, pc, c):
                    full = and_(at, cond)
                    if not is_sym(full) and not full:
                        continue
                    self.transitions += 1
                    t_enabled.append(full)
                    fire = and_(s == t, full)
                    for var, val in upd.items():
                        writes.setdefault(var, []).append((fire, val))
                        if var.endswith(".pc") and var != pcvar and var.startswith("T"):
                            # a thread started by this step: its entry point becomes possible
                            other = int(var[1:-3])
                            spawned.setdefault(other, set()).update(getattr(system, "spawn_targets", ()))
                    writes.setdefault(pcvar, []).append((fire, nxt))
                    newpcs[t].add(nxt)
            en = or_(*t_enabled) if t_enabled else False
            enabled.append(en)
        anyen = or_(*enabled)
        self.any_enabled.append(anyen)
        self.enabled_by_thread.append(enabled)
        cons = [and_(s == t, enabled[t]) for t in range(self.nthreads)]
        cons.append(and_(not_(anyen), s == self.STUTTER))
        self.constraints.append(or_(*cons))
        new = dict(S)
        for var, lst in writes.items():
            val = S[var]
            for cond, v in reversed(lst):
                val = ite(cond, v, val)
            new[var] = val
        for other, targets in spawned.items():
            newpcs[other] = set(newpcs.get(other, ())) | targets
        self.states.append(new)
        self.pcs.append(newpcs)
        return new

    def unroll(self, depth):
        while len(self.sched) < depth:
            self.extend()

    def schedule_from_model(self, model):
        out = []
        for s, c in zip(self.sched, self.choice):
            sv = model.eval(s, model_completion=True).as_long()
            cv = model.eval(c, model_completion=True).as_long()
            out.append((sv, cv))
        return out
