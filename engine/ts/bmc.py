"""
Engine TS, queries: windows (concrete prefix -> symbolic suffix), two regimes of
bounded interleaving checks decided by z3, completion twins, counterexample
extraction and validation on the model's own concrete interpreter.
"""
import time

import z3

from . import core
from .core import lift, and_, or_, not_


class Prop(object):
    """
    kind 'always': pred(state) must hold in every state of the unrolling
    kind 'final':  pred(state) must hold in every state where `when(state)` holds
                   (typically: all threads finished / nothing enabled)
    pred/when: fn(state dict) -> bool-like
    """

    def __init__(self, name, pred, kind="always", when=None, finding=None):
        self.name = name
        self.pred = pred
        self.kind = kind
        self.when = when
        self.finding = finding


class Window(object):
    """
    One scenario window: a system, a concrete start state, properties.
    """

    def __init__(self, name, system, state0, props, twin=None, describe=None):
        self.name = name
        self.system = system
        self.state0 = state0
        self.props = props
        self.twin = twin  # fn(state) -> bool-like that must be reachable (completion)
        self.describe = describe or {}


def all_done(system):
    n = len(system.threads)

    def fn(state):
        return and_(*[core.lt(state["T{0}.pc".format(t)], 0) for t in range(n)])

    return fn


def preemptions(un):
    """list of 0/1 terms: step k switches away from a thread that is still enabled"""
    out = []
    nthreads = un.nthreads
    for k in range(1, len(un.sched)):
        prev, cur = un.sched[k - 1], un.sched[k]
        still = [z3.And(prev == t, lift(un.enabled_by_thread[k][t])) for t in range(nthreads)]
        out.append(z3.If(z3.And(cur != prev, z3.Or(*still)), 1, 0))
    return out


class Result(object):
    def __init__(self):
        self.queries = 0
        self.solver_s = 0.0
        self.max_query_s = 0.0
        self.transitions = 0
        self.states = 0
        self.discharged = []  # (window, prop, regime)
        self.violations = []  # dict
        self.inconclusive = []
        self.twins = []  # (window, regime, steps of the witness)
        self.witnesses = []


def solve(constraints, extra, timeout_s):
    solver = z3.Solver()
    solver.set("timeout", int(timeout_s * 1000))
    for c in constraints:
        solver.add(c)
    for e in extra:
        solver.add(e)
    t0 = time.time()
    res = solver.check()
    dt = time.time() - t0
    model = solver.model() if str(res) == "sat" else None
    return str(res), model, dt


def check_window(window, depth, max_preempt, timeout_s, result, regime):
    """
    Unrolls `depth` macro-steps; for every property asks z3 for a violating
    schedule (optionally with at most max_preempt preemptions).
    """
    system = window.system
    un = core.Unroller(system, window.state0)
    un.unroll(depth)
    result.transitions += un.transitions
    result.states += depth
    cons = list(un.constraints)
    if max_preempt is not None:
        cons.append(z3.Sum(preemptions(un)) <= max_preempt)
    over = []
    for S in un.states:
        for flag in ("overflow", "W.overflow", "P._queue.overflow", "bad_task"):
            if flag in S:
                over.append(lift(S[flag]))
    # unwinding-style assertion: the bounds of the universe (bit width, queue
    # capacity, worker slots) are never exceeded within the window
    res, model, dt = solve(cons, [z3.Or(*over)] if over else [z3.BoolVal(False)], timeout_s)
    result.queries += 1
    result.solver_s += dt
    result.max_query_s = max(result.max_query_s, dt)
    if res == "sat":
        result.inconclusive.append("window={0} regime={1} reason=universe bound exceeded (queue capacity / worker slots / counter width)".format(window.name, regime))
    elif res != "unsat":
        result.inconclusive.append("window={0} regime={1} reason=bound assertion {2}".format(window.name, regime, res))
    def bad_terms(prop):
        bad = []
        if prop.kind == "nodeadlock":
            for k, S in enumerate(un.states[:-1]):
                bad.append(lift(and_(not_(un.any_enabled[k]), prop.when(S))))
            return bad
        for S in un.states:
            p = prop.pred(S)
            if prop.kind == "final":
                bad.append(lift(and_(prop.when(S), not_(p))))
            else:
                bad.append(lift(not_(p)))
        return bad

    # one query for "some clause is violated": unsat discharges all of them at once
    everything = []
    for prop in window.props:
        everything.extend(bad_terms(prop))
    res, model, dt = solve(cons, [z3.Or(*everything)], timeout_s)
    result.queries += 1
    result.solver_s += dt
    result.max_query_s = max(result.max_query_s, dt)
    if res == "unsat":
        for prop in window.props:
            result.discharged.append((window.name, prop.name, regime))
        todo = []
    else:
        todo = list(window.props)
    for prop in todo:
        bad = []
        if prop.kind == "nodeadlock":
            # a state in which no thread can move although `when` (work is left) holds
            for k, S in enumerate(un.states[:-1]):
                bad.append(lift(and_(not_(un.any_enabled[k]), prop.when(S))))
        for S in un.states if prop.kind != "nodeadlock" else []:
            p = prop.pred(S)
            if prop.kind == "final":
                w = prop.when(S)
                bad.append(lift(and_(w, not_(p))))
            else:
                bad.append(lift(not_(p)))
        res, model, dt = solve(cons, [z3.Or(*bad)], timeout_s)
        result.queries += 1
        result.solver_s += dt
        result.max_query_s = max(result.max_query_s, dt)
        if res == "unsat":
            result.discharged.append((window.name, prop.name, regime))
        elif res == "sat":
            schedule = un.schedule_from_model(model)
            result.violations.append({"window": window.name, "prop": prop.name, "regime": regime, "schedule": schedule,
                                      "finding": prop.finding, "_window": window, "_prop": prop})
        else:
            result.inconclusive.append("window={0} prop={1} regime={2} reason=z3 {3} after {4:.0f}s".format(window.name, prop.name, regime, res, dt))
    if window.twin is not None:
        S = un.states[-1]
        if window.twin == "progress":
            # vacuity guard for shallow windows: a run in which something moves at every step
            goal = [z3.And(*[sv != core.Unroller.STUTTER for sv in un.sched[: min(depth, 12)]])]
        else:
            goal = [lift(window.twin(S))]
        res, model, dt = solve(cons, goal, timeout_s)
        result.queries += 1
        result.solver_s += dt
        result.max_query_s = max(result.max_query_s, dt)
        if res == "sat":
            schedule = un.schedule_from_model(model)
            result.twins.append((window.name, regime, schedule))
        else:
            result.inconclusive.append("window={0} regime={1} reason=vacuous: completion twin {2} at depth {3}".format(window.name, regime, res, depth))
    return un


def trim_schedule(system, state0, schedule):
    """
    Re-executes a solver schedule on the concrete interpreter.  Returns
    (states, steps) with steps = [(tid, choice, [nodes])]; stutter steps dropped.
    """
    state = dict(state0)
    states = [state]
    steps = []
    for tid, choice in schedule:
        if tid >= len(system.threads):
            continue
        res = system.step_concrete(state, tid, choice)
        if res is None:
            raise RuntimeError("model schedule not executable: thread {0} at pc {1}".format(tid, state["T{0}.pc".format(tid)]))
        state, path = res
        states.append(state)
        steps.append((tid, choice, path))
    return states, steps


def violated_concretely(prop, states, system=None):
    if prop.kind == "nodeadlock":
        for idx, S in enumerate(states):
            if prop.when(S) and not any(system.enabled_concrete(S, t) for t in range(len(system.threads))):
                return idx
        return None
    for idx, S in enumerate(states):
        p = prop.pred(S)
        if prop.kind == "final":
            if prop.when(S) and not p:
                return idx
        elif not p:
            return idx
    return None
