"""
Engine TS, py2ts: lowers the classes of jsonrpclib/threadpool.py (EventData,
FutureResult, ThreadPool) and generated client programs from their AST into
transition-system nodes (engine/ts/core.py).

Granularity: one node per source line that Python's line tracer reports
(simple statements, `if`/`while`/`for` headers, `with` entry and `with` exit,
`try:`), plus internal nodes (line None) for the tail of a line that continues
after an inlined call returns.  Calls between modelled methods are inlined;
calls on threading/queue primitives become primitive operations (prims below).
Only the constructs the file uses are supported; anything else raises
`Unsupported`, which makes the check inconclusive instead of guessing.
"""
import ast

from . import core
from .core import ite, and_, or_, not_, eq, ne, lt, le, gt, ge, add, sub, truthy, arr_write


class Unsupported(Exception):
    pass


NONE = 0
OPAQUE = -2  # a value the model does not track (argument tuples, strings, ...): never None
SENTINEL = 1  # the pool's stop event object when it travels through the queue

MODELLED = ("ThreadPool", "FutureResult", "EventData")
GLOBAL_MARKS = ("stop_returned", "pool_serving", "shutdown_request", "socket_closed")


class Universe(object):
    """
    The finite universe of one scenario: workers, tasks, clients, ids.
    """

    def __init__(self, workers=2, tasks=2, clients=1, qcap=6, task_kinds=None, cb_kinds=None,
                 max_threads=2, min_threads=1, queue_size=0, timeout_none=False, gates=1, regs=2):
        self.W, self.M, self.C, self.Q = workers, tasks, clients, qcap
        kinds = list(task_kinds or ["ret"] * tasks)
        # a "_noname" suffix marks a callable without __name__ (functools.partial, callable object)
        self.task_noname = [k.endswith("_noname") for k in kinds]
        self.task_kinds = [k.replace("_noname", "") for k in kinds]
        self.cb_kinds = list(cb_kinds or ["ret"] * regs)
        self.max_threads, self.min_threads = max_threads, min_threads
        self.queue_size = queue_size
        self.timeout_none = timeout_none
        self.G = gates
        self.R = regs
        self.extra_none = set()  # registrations made without an extra argument
        base = 2
        self.TASK0 = base
        self.FUT0 = self.TASK0 + tasks
        self.THR0 = self.FUT0 + tasks
        self.EXC0 = self.THR0 + workers  # exception raised by task i
        self.RES0 = self.EXC0 + tasks  # value returned by task i
        self.CB0 = self.RES0 + tasks
        self.EXTRA0 = self.CB0 + regs
        nxt = self.EXTRA0 + regs
        self.EXC_EMPTY, self.EXC_FULL, self.EXC_RT, self.EXC_TIMEOUT, self.EXC_CB, self.EXC_VALUE = range(nxt, nxt + 6)
        self.TOP = nxt + 6
        if self.TOP > core.HI:
            raise Unsupported("universe too large for the bit width")

    def task(self, i):
        return self.TASK0 + i

    def fut(self, i):
        return self.FUT0 + i

    def thr(self, w):
        return self.THR0 + w

    def describe(self, ident):
        if ident == NONE:
            return "None"
        if ident == SENTINEL:
            return "<stop event>"
        for name, base, n in (("task", self.TASK0, self.M), ("future", self.FUT0, self.M), ("thread", self.THR0, self.W),
                              ("exc_of_task", self.EXC0, self.M), ("result_of_task", self.RES0, self.M),
                              ("callback", self.CB0, self.R), ("extra", self.EXTRA0, self.R)):
            if base <= ident < base + n:
                return "{0}{1}".format(name, ident - base)
        names = {self.EXC_EMPTY: "queue.Empty", self.EXC_FULL: "queue.Full", self.EXC_RT: "RuntimeError",
                 self.EXC_TIMEOUT: "OSError(timeout)", self.EXC_CB: "CallbackError", self.EXC_VALUE: "ValueError"}
        return names.get(ident, "id{0}".format(ident))


# ---------------------------------------------------------------------------
# compile-time values


class Val(object):
    """
    A compiled expression: static sort + closure env -> value.
    sorts: int bool none id Pool Future EventData Event Queue RLock Cond
           ThreadSet Thread Task Logger Opaque Exc
    For object sorts `fn` returns the object's index; `base` names its state.
    """

    __slots__ = ("sort", "fn", "base", "const")

    def __init__(self, sort, fn, base=None, const=None):
        self.sort = sort
        self.fn = fn
        self.base = base
        self.const = const


def const(sort, value, base=None):
    return Val(sort, (lambda env, v=value: v), base, const=value)


EXC_CLASSES = {
    # class name -> set of raise classes it catches
    "Exception": None,  # everything
    "BaseException": None,
    "Empty": {"Empty"},
    "Full": {"Full"},
    "RuntimeError": {"RuntimeError"},
    "OSError": {"OSError"},
    "IOError": {"OSError"},
    "ValueError": {"ValueError"},
    "TypeError": {"TypeError"},
    "AttributeError": {"AttributeError"},
}


class Ctx(object):
    """
    Compile-time context of one (inlined) function activation.
    """

    def __init__(self, lowering, cls, self_val, frame, unwind, ret):
        self.lo = lowering
        self.cls = cls
        self.self_val = self_val
        self.frame = frame
        self.locals = {}  # name -> Val-sort info (sort, base)
        self.unwind = unwind  # tuple of entries, innermost last
        self.ret = ret  # RetInfo for `return`
        self.cur_exc_class = None
        self.owner = None
        self.file = None

    def child(self, **kw):
        c = Ctx(self.lo, self.cls, self.self_val, self.frame, self.unwind, self.ret)
        c.locals = self.locals
        c.cur_exc_class = self.cur_exc_class
        c.owner = self.owner
        c.file = self.file
        for k, v in kw.items():
            setattr(c, k, v)
        return c

    def lvar(self, name):
        return "{0}.{1}".format(self.frame, name)


class Lowering(object):
    """
    Builds a core.System from source + a scenario.
    """

    def __init__(self, source, filename, universe):
        self.U = universe
        self.filename = filename
        self.tree = ast.parse(source)
        self.classes = {}
        for node in self.tree.body:
            if isinstance(node, ast.ClassDef):
                self.classes[node.name] = node
        for name in MODELLED:
            if name not in self.classes:
                raise Unsupported("class {0} not found".format(name))
        self.methods = {}
        self.properties = {}
        for cname in MODELLED:
            for item in self.classes[cname].body:
                if isinstance(item, ast.FunctionDef):
                    is_prop = any(isinstance(d, ast.Name) and d.id == "property" for d in item.decorator_list)
                    (self.properties if is_prop else self.methods)[(cname, item.name)] = item
        self.system = core.System()
        self.frames = 0
        self.thread_locals = set()  # names (without T<i>. prefix) of per-thread variables
        self.local_init = {}
        self.field_sorts = {}  # (cls, attr) -> (sort, base)
        self.local_owner = {}
        self.in_client = None
        self.encoded_functions = set()
        self._analyse_inits()

    # -- names ---------------------------------------------------------------
    @staticmethod
    def mangle(cls, attr):
        if attr.startswith("__") and not attr.endswith("__"):
            return "_{0}{1}".format(cls.lstrip("_"), attr)
        return attr

    def new_frame(self, tag):
        self.frames += 1
        return "f{0}_{1}".format(self.frames, tag)

    def declare_local(self, ctx, name, init=0):
        full = ctx.lvar(name)
        self.thread_locals.add(full)
        self.local_init.setdefault(full, init)
        self.local_owner[full] = ctx.owner
        return full

    # -- __init__ analysis -----------------------------------------------------
    def _analyse_inits(self):
        U = self.U
        init = self.system.init
        # ThreadPool.__init__
        params = {"max_threads": U.max_threads, "min_threads": U.min_threads, "queue_size": U.queue_size,
                  "timeout": NONE if U.timeout_none else 1, "logname": NONE}
        self._init_class("ThreadPool", "P", None, params)
        self._init_class("FutureResult", "F", U.M, {"logger": NONE})
        self._init_class("EventData", "ED", U.M, {})
        for g in range(U.G):
            init["G.flag[{0}]".format(g)] = False

    def _init_class(self, cname, base, count, params):
        fn = self.methods.get((cname, "__init__"))
        if fn is None:
            raise Unsupported("{0}.__init__ missing".format(cname))
        init = self.system.init

        def setv(attr, value):
            if count is None:
                init["{0}.{1}".format(base, attr)] = value
            else:
                for i in range(count):
                    init["{0}.{1}[{2}]".format(base, attr, i)] = value

        def visit(stmts):
            for stmt in stmts:
                if isinstance(stmt, ast.Expr) and isinstance(stmt.value, ast.Constant):
                    continue
                if isinstance(stmt, ast.Try):
                    visit(stmt.body)
                    continue
                if isinstance(stmt, ast.If):
                    continue
                if isinstance(stmt, ast.Assign) and len(stmt.targets) == 1:
                    tgt = stmt.targets[0]
                    if isinstance(tgt, ast.Name):
                        continue  # parameter normalisation (validated by the CrossHair part of C10)
                    if isinstance(tgt, ast.Attribute) and isinstance(tgt.value, ast.Name) and tgt.value.id == "self":
                        attr = self.mangle(cname, tgt.attr)
                        self._init_field(cname, base, attr, stmt.value, params, setv)
                        continue
                if isinstance(stmt, ast.Expr) and isinstance(stmt.value, ast.Call):
                    call = stmt.value
                    f = call.func
                    if (isinstance(f, ast.Attribute) and f.attr == "set" and isinstance(f.value, ast.Attribute)
                            and isinstance(f.value.value, ast.Name) and f.value.value.id == "self"):
                        attr = self.mangle(cname, f.value.attr)
                        if self.field_sorts.get((cname, attr), (None,))[0] == "Event":
                            setv(attr + ".flag", True)
                            continue
                raise Unsupported("{0}.__init__: {1}".format(cname, ast.dump(stmt)[:80]))

        visit(fn.body)

    def _init_field(self, cname, base, attr, value, params, setv):
        key = (cname, attr)
        full = "{0}.{1}".format(base, attr)
        if isinstance(value, ast.Constant):
            v = value.value
            if v is None:
                self.field_sorts[key] = ("id", full)
                setv(attr, NONE)
            elif isinstance(v, bool):
                self.field_sorts[key] = ("bool", full)
                setv(attr, v)
            elif isinstance(v, int):
                self.field_sorts[key] = ("int", full)
                setv(attr, v)
            else:
                raise Unsupported("constant field {0}".format(attr))
            return
        if isinstance(value, ast.Name):
            if value.id in params:
                self.field_sorts[key] = ("int", full)
                setv(attr, params[value.id])
                return
            raise Unsupported("field {0} = {1}".format(attr, value.id))
        if isinstance(value, ast.List) and not value.elts:
            self.field_sorts[key] = ("ThreadSet", full)
            for w in range(self.U.W):
                self.system.init["{0}[{1}]".format(full, w)] = False
            return
        if isinstance(value, ast.BoolOp):
            # logger or logging.getLogger(...)
            self.field_sorts[key] = ("Logger", full)
            return
        if isinstance(value, ast.Call):
            f = value.func
            name = f.attr if isinstance(f, ast.Attribute) else (f.id if isinstance(f, ast.Name) else None)
            if name == "Event":
                self.field_sorts[key] = ("Event", full)
                setv(attr + ".flag", False)
                return
            if name in ("RLock", "Lock"):
                self.field_sorts[key] = ("RLock" if name == "RLock" else "Lock", full)
                setv(attr + ".owner", -1)
                setv(attr + ".depth", 0)
                return
            if name == "Queue":
                self.field_sorts[key] = ("Queue", full)
                init = self.system.init
                for i in range(self.U.Q):
                    init["{0}.item[{1}]".format(full, i)] = NONE
                init[full + ".len"] = 0
                init[full + ".unfinished"] = 0
                init[full + ".mutex"] = -1
                init[full + ".maxsize"] = self.U.queue_size
                init[full + ".overflow"] = False
                return
            if name == "getLogger":
                self.field_sorts[key] = ("Logger", full)
                return
            if name == "EventData":
                self.field_sorts[key] = ("EventData", "ED")
                return
        raise Unsupported("field initialiser {0}: {1}".format(attr, ast.dump(value)[:80]))

    # -----------------------------------------------------------------------
    # static sorts

    def sort_of(self, expr, ctx):
        """
        Static sort of an expression (without compiling it).
        """
        if isinstance(expr, ast.Name):
            if expr.id == "self":
                return ctx.self_val.sort if ctx.self_val else "Opaque"
            if expr.id in ctx.locals:
                return ctx.locals[expr.id][0]
            if expr.id in getattr(self, "scenario_consts", {}):
                return self.scenario_consts[expr.id].sort
            return "Opaque"
        if isinstance(expr, ast.Attribute):
            recv = self.sort_of(expr.value, ctx)
            cls = {"Pool": "ThreadPool", "Future": "FutureResult", "EventData": "EventData"}.get(recv)
            if cls:
                attr = self.mangle(ctx.cls if isinstance(expr.value, ast.Name) and expr.value.id == "self" else cls, expr.attr)
                if (cls, attr) in self.field_sorts:
                    return self.field_sorts[(cls, attr)][0]
                if (cls, expr.attr) in self.properties:
                    return "id"
            return "Opaque"
        return "Opaque"

    def is_modelled_call(self, expr, ctx):
        """
        Is `expr` a call of a modelled method / an access of a modelled property?
        Returns (cls, name, receiver expr, args) or None
        """
        if isinstance(expr, ast.Call) and isinstance(expr.func, ast.Attribute):
            recv = self.sort_of(expr.func.value, ctx)
            cls = {"Pool": "ThreadPool", "Future": "FutureResult", "EventData": "EventData"}.get(recv)
            if cls:
                name = expr.func.attr
                if isinstance(expr.func.value, ast.Name) and expr.func.value.id == "self":
                    name = self.mangle(ctx.cls, name)
                    # methods are stored under their source name
                    for (c, n) in self.methods:
                        if c == cls and self.mangle(c, n) == name:
                            return (cls, n, expr.func.value, expr.args, expr.keywords)
                if (cls, expr.func.attr) in self.methods:
                    return (cls, expr.func.attr, expr.func.value, expr.args, expr.keywords)
                own = isinstance(expr.func.value, ast.Name) and expr.func.value.id == "self"
                if (cls, self.mangle(ctx.cls if own else cls, expr.func.attr)) in self.field_sorts:
                    return None  # a callable stored in a field (the callback)
                raise Unsupported("unknown method {0}.{1}".format(cls, expr.func.attr))
        if isinstance(expr, ast.Attribute):
            recv = self.sort_of(expr.value, ctx)
            cls = {"Pool": "ThreadPool", "Future": "FutureResult", "EventData": "EventData"}.get(recv)
            if cls and (cls, expr.attr) in self.properties:
                return (cls, expr.attr, expr.value, [], [])
        return None


# ---------------------------------------------------------------------------
# expression compiler


def as_id(val, U):
    """
    Object identity of a compiled value as an id (for `is`, queue items, ...).
    """
    if val.sort in ("id", "int", "none", "Task", "Exc", "Opaque"):
        return val.fn
    if val.sort == "Event" and val.base is not None and val.base.startswith("P."):
        return lambda env: SENTINEL
    if val.sort == "Future":
        return lambda env, f=val.fn: add(f(env), U.FUT0)
    if val.sort == "Thread":
        return lambda env, f=val.fn: add(f(env), U.THR0)
    raise Unsupported("identity of a {0}".format(val.sort))


class ExprCompiler(object):
    def __init__(self, lowering):
        self.lo = lowering
        self.U = lowering.U

    def compile(self, expr, ctx):
        meth = getattr(self, "c_" + type(expr).__name__, None)
        if meth is None:
            raise Unsupported("expression {0}".format(type(expr).__name__))
        return meth(expr, ctx)

    def c_Constant(self, expr, ctx):
        v = expr.value
        if v is None:
            return const("none", NONE)
        if isinstance(v, bool):
            return const("bool", v)
        if isinstance(v, int):
            return const("int", v)
        return const("Opaque", OPAQUE)

    def c_JoinedStr(self, expr, ctx):
        return const("Opaque", OPAQUE)

    def c_Name(self, expr, ctx):
        name = expr.id
        if name == "self":
            if ctx.self_val is None:
                raise Unsupported("self outside a method")
            return ctx.self_val
        if name in ctx.locals:
            sort, base = ctx.locals[name]
            full = ctx.lvar(name)
            return Val(sort, (lambda env, n=full: env.l(n)), base)
        if name in GLOBAL_MARKS:
            return Val("bool", lambda env, n=name: env.g(n))
        if name in ("queue", "threading", "logging"):
            return const("Opaque", OPAQUE)
        if name in ctx.lo.scenario_consts:
            return ctx.lo.scenario_consts[name]
        raise Unsupported("name {0}".format(name))

    def field(self, cls, recv, attr, ctx):
        lo = self.lo
        key = (cls, attr)
        if key not in lo.field_sorts:
            raise Unsupported("unknown field {0}.{1}".format(cls, attr))
        sort, full = lo.field_sorts[key]
        count = None if cls == "ThreadPool" else self.U.M
        if sort in ("int", "bool", "id"):
            if count is None:
                return Val(sort, lambda env, n=full: env.g(n))
            return Val(sort, lambda env, n=full, f=recv.fn, c=count: env.arr(n, f(env), c))
        if sort == "EventData":
            return Val("EventData", recv.fn, "ED")
        # Event / Queue / RLock / ThreadSet / Logger: object living inside the receiver
        return Val(sort, recv.fn, full)

    def c_Attribute(self, expr, ctx):
        recv = self.compile(expr.value, ctx)
        cls = {"Pool": "ThreadPool", "Future": "FutureResult", "EventData": "EventData"}.get(recv.sort)
        if cls:
            own = isinstance(expr.value, ast.Name) and expr.value.id == "self"
            attr = self.lo.mangle(ctx.cls if own else cls, expr.attr)
            if (cls, attr) in self.lo.field_sorts:
                return self.field(cls, recv, attr, ctx)
            if (cls, expr.attr) in self.lo.methods or (cls, attr) in [(c, self.lo.mangle(c, n)) for c, n in self.lo.methods]:
                return Val("BoundMethod", recv.fn, base=(cls, expr.attr))
            raise Unsupported("attribute {0}.{1}".format(cls, expr.attr))
        if recv.sort == "Queue":
            if expr.attr == "unfinished_tasks":
                return Val("int", lambda env, b=recv.base: env.g(b + ".unfinished"))
            if expr.attr == "all_tasks_done":
                return Val("Cond", recv.fn, recv.base)
        if recv.sort in ("Opaque", "Logger", "Thread", "Task", "id"):
            # module attributes (queue.Empty), thread.name, method.__name__, logger.name
            return Val("Opaque", lambda env: OPAQUE, base=expr.attr)
        raise Unsupported("attribute .{0} of {1}".format(expr.attr, recv.sort))

    def c_UnaryOp(self, expr, ctx):
        v = self.compile(expr.operand, ctx)
        if isinstance(expr.op, ast.Not):
            return Val("bool", lambda env, f=v.fn: not_(truthy(f(env))))
        if isinstance(expr.op, ast.USub):
            return Val("int", lambda env, f=v.fn: sub(0, f(env)))
        raise Unsupported("unary operator")

    def c_BoolOp(self, expr, ctx):
        vals = [self.compile(v, ctx) for v in expr.values]
        fns = [v.fn for v in vals]
        if isinstance(expr.op, ast.And):
            return Val("bool", lambda env: and_(*[truthy(f(env)) for f in fns]))
        return Val("bool", lambda env: or_(*[truthy(f(env)) for f in fns]))

    def c_BinOp(self, expr, ctx):
        a, b = self.compile(expr.left, ctx), self.compile(expr.right, ctx)
        if a.sort == "Opaque" or b.sort == "Opaque":
            return const("Opaque", OPAQUE)
        if isinstance(expr.op, ast.Add):
            return Val("int", lambda env: add(a.fn(env), b.fn(env)))
        if isinstance(expr.op, ast.Sub):
            return Val("int", lambda env: sub(a.fn(env), b.fn(env)))
        raise Unsupported("binary operator {0}".format(type(expr.op).__name__))

    def c_Compare(self, expr, ctx):
        if len(expr.ops) != 1:
            raise Unsupported("chained comparison")
        a, b = self.compile(expr.left, ctx), self.compile(expr.comparators[0], ctx)
        op = expr.ops[0]
        if isinstance(op, (ast.Is, ast.IsNot)) and {a.sort, b.sort} & {"none"} and {a.sort, b.sort} & {"int", "bool"}:
            # a number is never None (None and 0 share an encoding: decided statically from the sorts)
            return const("bool", isinstance(op, ast.IsNot))
        if isinstance(op, (ast.Is, ast.IsNot, ast.Eq, ast.NotEq)):
            fa, fb = as_id(a, self.U), as_id(b, self.U)
            if isinstance(op, (ast.Is, ast.Eq)):
                return Val("bool", lambda env: eq(fa(env), fb(env)))
            return Val("bool", lambda env: ne(fa(env), fb(env)))
        table = {ast.Lt: lt, ast.LtE: le, ast.Gt: gt, ast.GtE: ge}
        for klass, fn in table.items():
            if isinstance(op, klass):
                return Val("bool", lambda env, fn=fn: fn(a.fn(env), b.fn(env)))
        raise Unsupported("comparison {0}".format(type(op).__name__))

    def c_Tuple(self, expr, ctx):
        # the task tuple (method, args, kwargs, future): identified by its method
        if len(expr.elts) == 4:
            first = self.compile(expr.elts[0], ctx)
            if first.sort == "Task":
                return Val("Task", first.fn)
        raise Unsupported("tuple expression")

    def c_List(self, expr, ctx):
        if not expr.elts:
            return const("Opaque", OPAQUE)
        raise Unsupported("list expression")

    def c_Dict(self, expr, ctx):
        if not expr.keys:
            return const("Opaque", OPAQUE)
        raise Unsupported("dict expression")

    def c_Subscript(self, expr, ctx):
        recv = self.compile(expr.value, ctx)
        if recv.sort == "ThreadSet" and isinstance(expr.slice, ast.Slice) and expr.slice.lower is None and expr.slice.upper is None:
            return Val("ThreadSetCopy", recv.fn, recv.base)
        raise Unsupported("subscript")

    def c_Call(self, expr, ctx):
        """
        Side-effect free primitive calls usable inside expressions.
        """
        U = self.U
        f = expr.func
        if isinstance(f, ast.Name):
            if f.id == "hasattr":
                return const("bool", True)
            if f.id == "bool":
                v = self.compile(expr.args[0], ctx)
                return Val("bool", lambda env: truthy(v.fn(env)))
            if f.id == "len":
                v = self.compile(expr.args[0], ctx)
                if v.sort == "ThreadSet":
                    return Val("int", lambda env, b=v.base: threadset_len(env, b, U))
            raise Unsupported("call {0}()".format(f.id))
        if isinstance(f, ast.Attribute):
            if isinstance(f.value, ast.Name) and f.value.id == "threading" and f.attr == "current_thread":
                return Val("Thread", lambda env: env.g("T{0}.worker".format(env.tid)))
            if f.attr == "format":
                return const("Opaque", OPAQUE)
            recv = self.compile(f.value, ctx)
            if recv.sort == "Event" and f.attr == "is_set":
                return Val("bool", lambda env: event_flag(env, recv, U))
            if recv.sort == "Queue":
                if f.attr == "qsize":
                    return Val("int", lambda env, b=recv.base: env.g(b + ".len"))
                if f.attr == "empty":
                    return Val("bool", lambda env, b=recv.base: eq(env.g(b + ".len"), 0))
            if recv.sort == "Thread" and f.attr == "is_alive":
                return Val("bool", lambda env: eq(env.arr("W.state", recv.fn(env), U.W), 2))
            if recv.sort == "Opaque" and f.attr in ("getLogger",):
                return const("Opaque", OPAQUE)
        raise Unsupported("call in expression: {0}".format(ast.dump(expr)[:100]))


def has_timeout(val):
    """closure: does this timeout argument denote a time-out (i.e. is it not None)?"""
    if val.sort in ("int", "bool"):
        return lambda env: True
    if val.sort == "none":
        return lambda env: False
    return lambda env, f=val.fn: ne(f(env), NONE)


def event_flag(env, val, U):
    """reads the flag of an Event value"""
    base = val.base
    if base.startswith("P."):
        return env.g(base + ".flag")
    if base == "G":
        return env.arr("G.flag", val.fn(env), U.G)
    return env.arr(base + ".flag", val.fn(env), U.M)


def event_write(upd, env, val, U, value):
    base = val.base
    if base.startswith("P."):
        upd[base + ".flag"] = value
    elif base == "G":
        arr_write(upd, env, "G.flag", val.fn(env), U.G, value)
    else:
        arr_write(upd, env, base + ".flag", val.fn(env), U.M, value)


def threadset_len(env, base, U):
    total = 0
    for w in range(U.W):
        total = add(total, ite(env.g("{0}[{1}]".format(base, w)), 1, 0))
    return total


# ---------------------------------------------------------------------------
# statement lowering


class Label(object):
    """
    A jump target, bound later to a node id or to another label.
    """

    __slots__ = ("_pc", "_alias")

    def __init__(self, pc=None):
        self._pc = pc
        self._alias = None

    @property
    def pc(self):
        if self._alias is not None:
            return self._alias.pc
        if self._pc is None:
            raise RuntimeError("unbound label")
        return self._pc

    def bind(self, other):
        if isinstance(other, Label):
            self._alias = other
        else:
            self._pc = other


class RetInfo(object):
    def __init__(self, target, store):
        self.target = target
        self.store = store  # fn(Val or None) -> effect(env, upd) or None


def matches(handler_type, exc_class):
    if handler_type is None:
        return True
    elts = handler_type.elts if isinstance(handler_type, ast.Tuple) else [handler_type]
    for e in elts:
        if isinstance(e, ast.Name):
            name = e.id
        elif isinstance(e, ast.Attribute):
            name = e.attr
        else:
            raise Unsupported("exception class expression")
        if name not in EXC_CLASSES:
            raise Unsupported("exception class {0}".format(name))
        caught = EXC_CLASSES[name]
        if exc_class == "BaseException*":
            # SystemExit-like: only `except BaseException` (and a bare except) catch it
            if name == "BaseException":
                return True
            continue
        if caught is None or exc_class in caught:
            return True
    return False


class PrimOutcome(object):
    """cond, effect(env, upd), kind 'ok' | ('raise', class), value fn"""

    __slots__ = ("cond", "effect", "exc_class", "value")

    def __init__(self, cond, effect=None, exc_class=None, value=None):
        self.cond = cond
        self.effect = effect
        self.exc_class = exc_class
        self.value = value


class StmtLowering(object):
    def __init__(self, lowering):
        self.lo = lowering
        self.U = lowering.U
        self.ex = ExprCompiler(lowering)
        self.sys = lowering.system
        self._raise_memo = {}
        self.tmp = 0
        self.cur_ctx = None

    # -- helpers -----------------------------------------------------------------
    def node(self, line, label, run, kind="stmt"):
        ctx = self.cur_ctx
        nid = self.sys.new_node(line, label, run, ctx.file if ctx is not None and ctx.file else self.lo.cur_file, kind)
        if ctx is not None:
            self.sys.nodes[nid].locks = tuple(e[2] for e in ctx.unwind if e[0] == "with" and e[2] is not None)
        return nid

    def simple(self, line, label, effect, target, kind="stmt"):
        def run(env):
            upd = {}
            if effect is not None:
                effect(env, upd)
            return [(True, upd, target.pc)]

        return Label(self.node(line, label, run, kind))

    def fresh_tmp(self):
        self.tmp += 1
        return "_t{0}".format(self.tmp)

    def set_local(self, ctx, name, val):
        """effect storing a compiled value into a local; records its static sort"""
        lo = self.lo
        U = self.U
        if val.sort == "ThreadSetCopy":
            for w in range(U.W):
                lo.declare_local(ctx, "{0}[{1}]".format(name, w), False)
            ctx.locals[name] = ("ThreadSetLocal", ctx.lvar(name))

            def effect(env, upd, base=val.base, full=ctx.lvar(name)):
                for w in range(U.W):
                    upd[env.lname("{0}[{1}]".format(full, w))] = env.g("{0}[{1}]".format(base, w))

            return effect
        full = lo.declare_local(ctx, name, False if val.sort == "bool" else 0)
        ctx.locals[name] = (val.sort, val.base)

        def effect(env, upd, f=val.fn, full=full):
            upd[env.lname(full)] = f(env)

        return effect

    # -- blocks --------------------------------------------------------------------
    def block(self, stmts, ctx, k):
        stmts = [s for s in stmts if not (isinstance(s, ast.Expr) and isinstance(s.value, ast.Constant))]
        if not stmts:
            return k
        labels = [Label() for _ in stmts]
        for i, stmt in enumerate(stmts):
            nxt = labels[i + 1] if i + 1 < len(stmts) else k
            labels[i].bind(self.stmt(stmt, ctx, nxt))
        return labels[0]

    # -- hoisting of modelled calls out of expressions ---------------------------------
    def hoist(self, expr, ctx, calls):
        lo = self.lo
        outer = self

        class T(ast.NodeTransformer):
            def visit_Call(inner, node):
                node = inner.generic_visit(node)
                info = lo.is_modelled_call(node, ctx)
                if info:
                    tmp = outer.fresh_tmp()
                    calls.append((tmp, info))
                    return ast.copy_location(ast.Name(id=tmp, ctx=ast.Load()), node)
                return node

            def visit_Attribute(inner, node):
                node = inner.generic_visit(node)
                if isinstance(node.ctx, ast.Load):
                    info = lo.is_modelled_call(node, ctx)
                    if info and isinstance(info, tuple) and (info[0], info[1]) in lo.properties:
                        tmp = outer.fresh_tmp()
                        calls.append((tmp, info))
                        return ast.copy_location(ast.Name(id=tmp, ctx=ast.Load()), node)
                return node

        return T().visit(expr)

    def with_hoisting(self, stmt, exprs, ctx, build):
        """
        exprs: expressions evaluated when the statement starts.  build(new_exprs,
        line) -> entry label of the node doing the rest.  Hoisted calls run first
        (the first one carries the statement's line), the rest is then internal.
        """
        import copy

        calls = []
        new_exprs = [self.hoist(copy.deepcopy(e), ctx, calls) if e is not None else None for e in exprs]
        if not calls:
            return build(new_exprs, stmt.lineno)
        entry = Label()
        cur = entry
        line = stmt.lineno
        for tmp, info in calls:
            after = Label()
            cur.bind(self.call_modelled(info, ctx, line, tmp, after))
            cur = after
            line = None
        cur.bind(build(new_exprs, None))
        return entry

    # -- inlining ----------------------------------------------------------------------
    def call_modelled(self, info, ctx, line, result_name, k):
        lo = self.lo
        cls, name, recv_ast, args, keywords = info
        fn = lo.methods.get((cls, name)) or lo.properties.get((cls, name))
        lo.encoded_functions.add("{0}.{1}".format(cls, name))
        recv = self.ex.compile(recv_ast, ctx)
        sortname = {"ThreadPool": "Pool", "FutureResult": "Future", "EventData": "EventData"}[cls]
        callee = Ctx(lo, cls, None, lo.new_frame(name.strip("_")), ctx.unwind + (("func",),), None)
        callee.owner = ctx.owner
        callee.file = self.lo.filename
        effects = []
        if recv.const is not None:
            callee.self_val = const(sortname, recv.const, recv.base)
        else:
            full = lo.declare_local(callee, "self")
            callee.self_val = Val(sortname, (lambda env, n=full: env.l(n)), recv.base)
            effects.append(lambda env, upd, f=recv.fn, n=full: upd.__setitem__(env.lname(n), f(env)))
        params = [a.arg for a in fn.args.args[1:]]
        defaults = fn.args.defaults
        bound = {}
        for i, pname in enumerate(params):
            if i < len(args):
                if isinstance(args[i], ast.Starred):
                    raise Unsupported("starred argument")
                bound[pname] = self.ex.compile(args[i], ctx)
                continue
            kw = [kwd for kwd in keywords if kwd.arg == pname]
            if kw:
                bound[pname] = self.ex.compile(kw[0].value, ctx)
                continue
            di = i - (len(params) - len(defaults))
            if di < 0:
                raise Unsupported("missing argument {0} of {1}".format(pname, name))
            bound[pname] = self.ex.compile(defaults[di], ctx)
        if len(args) > len(params) and not fn.args.vararg:
            raise Unsupported("too many arguments for {0}".format(name))
        if fn.args.vararg:
            bound[fn.args.vararg.arg] = const("Opaque", OPAQUE)
        if fn.args.kwarg:
            bound[fn.args.kwarg.arg] = const("Opaque", OPAQUE)
        for pname, val in bound.items():
            effects.append(self.set_local(callee, pname, val))

        def store(val):
            if result_name is None:
                return None
            if val is None:
                val = const("none", NONE)
            known = ctx.locals.get(result_name)
            if known is not None and known[0] not in ("none", val.sort) and val.sort != "none":
                pass
            if known is not None and val.sort == "none":
                # keep the more informative sort recorded by another return
                full = lo.declare_local(ctx, result_name)
                return lambda env, upd, full=full: upd.__setitem__(env.lname(full), NONE)
            return self.set_local(ctx, result_name, val)

        callee.ret = RetInfo(k, store)
        end = self.simple(None, "implicit return", store(None) if result_name is not None else None, k, kind="internal")
        body_entry = self.block(fn.body, callee, end)
        if result_name is not None and result_name not in ctx.locals:
            self.set_local(ctx, result_name, const("none", NONE))

        def effect(env, upd):
            for e in effects:
                e(env, upd)

        return self.simple(line, "call {0}.{1}".format(cls, name), effect, body_entry,
                           kind="stmt" if line is not None else "internal")

    # -- unwinding -----------------------------------------------------------------------
    def return_target(self, ctx, target):
        # cleanups between here and the function boundary, innermost first ...
        pending = []
        for entry in reversed(ctx.unwind):
            if entry[0] == "func":
                break
            if entry[0] in ("with", "finally"):
                pending.append(entry)
        # ... wrapped from the outermost in, so that the innermost runs first
        for entry in reversed(pending):
            if entry[0] == "with":
                target = entry[1](target)
            else:
                target = self.block(entry[1], entry[2], target)
        return target

    def raise_target(self, ctx, exc_class):
        key = (ctx.unwind, exc_class)
        try:
            memo = self._raise_memo.get(key)
        except TypeError:
            memo, key = None, None
        if memo is not None:
            return memo
        label = Label()
        if key is not None:
            self._raise_memo[key] = label
        pending = []
        target = None
        for entry in reversed(ctx.unwind):
            if entry[0] in ("with", "finally"):
                pending.append(entry)
            elif entry[0] == "try":
                _, handlers, hctx, after = entry
                for h in handlers:
                    if matches(h.type, exc_class):
                        target = self.handler_entry(h, hctx, exc_class, after)
                        break
                if target is not None:
                    break
            elif entry[0] == "top":
                target = entry[1]
                break
        if target is None:
            raise Unsupported("exception {0} escapes the modelled code".format(exc_class))
        for entry in reversed(pending):
            if entry[0] == "with":
                target = entry[1](target)
            else:
                # the exception being propagated survives the finally block (whose
                # own handled exceptions would otherwise overwrite the register)
                self.tmp += 1
                saved = "_exc_saved{0}".format(self.tmp)
                self.lo.thread_locals.add(saved)
                self.lo.local_init.setdefault(saved, NONE)
                restore = self.simple(None, "restore propagating exception",
                                      (lambda env, upd, saved=saved: upd.__setitem__(env.lname("exc"), env.l(saved))), target, kind="internal")
                body = self.block(entry[1], entry[2], restore)
                target = self.simple(None, "save propagating exception",
                                     (lambda env, upd, saved=saved: upd.__setitem__(env.lname(saved), env.l("exc"))), body, kind="internal")
        label.bind(target)
        return label

    def handler_entry(self, handler, hctx, exc_class, after):
        c = hctx.child()
        c.cur_exc_class = exc_class
        eff = None
        saved = self.cur_ctx
        self.cur_ctx = c
        try:
            if handler.name:
                eff = self.set_local(c, handler.name, Val("id", lambda env: env.l("exc")))
            body = self.block(handler.body, c, after)
            return self.simple(handler.lineno, "except", eff, body)
        finally:
            self.cur_ctx = saved

    # -- statements ----------------------------------------------------------------------
    def stmt(self, stmt, ctx, k):
        meth = getattr(self, "s_" + type(stmt).__name__, None)
        if meth is None:
            raise Unsupported("statement {0} at line {1}".format(type(stmt).__name__, stmt.lineno))
        saved = self.cur_ctx
        self.cur_ctx = ctx
        try:
            return meth(stmt, ctx, k)
        finally:
            self.cur_ctx = saved

    def s_Global(self, stmt, ctx, k):
        return k

    def s_Pass(self, stmt, ctx, k):
        return self.simple(stmt.lineno, "pass", None, k)

    def prim_node(self, line, label, outcomes_fn, ctx, k, result_name=None, result_sort="id", result_base=None, raises=()):
        """
        Node for a primitive operation: outcomes_fn(env) -> [PrimOutcome].
        """
        if result_name is not None:
            full = self.lo.declare_local(ctx, result_name)
            ctx.locals[result_name] = (result_sort, result_base)
        else:
            full = None
        targets = {}

        def target_for(exc_class):
            if exc_class not in targets:
                targets[exc_class] = self.raise_target(ctx, exc_class)
            return targets[exc_class]

        # raise targets are resolved now (lowering time), never while the system runs
        for exc_class in raises:
            target_for(exc_class)
        frozen = dict(targets)

        def target_for(exc_class):  # noqa: F811
            return frozen[exc_class]

        def run(env):
            outs = []
            for o in outcomes_fn(env):
                upd = {}
                if o.effect is not None:
                    o.effect(env, upd)
                if o.exc_class is None:
                    if full is not None and o.value is not None:
                        upd[env.lname(full)] = o.value
                    outs.append((o.cond, upd, k.pc))
                else:
                    upd[env.lname("exc")] = o.value
                    outs.append((o.cond, upd, target_for(o.exc_class).pc))
            return outs

        return run, target_for

    def s_Expr(self, stmt, ctx, k):
        call = stmt.value
        if not isinstance(call, ast.Call):
            raise Unsupported("expression statement at line {0}".format(stmt.lineno))
        info = self.lo.is_modelled_call(call, ctx)
        if info:
            return self.call_modelled(info, ctx, stmt.lineno, None, k)
        return self.prim_stmt(stmt, call, ctx, k, None)

    def s_Assign(self, stmt, ctx, k):
        if len(stmt.targets) != 1:
            raise Unsupported("multiple assignment targets")
        tgt = stmt.targets[0]
        value = stmt.value
        if isinstance(tgt, ast.Name) and tgt.id in GLOBAL_MARKS:
            val = self.ex.compile(value, ctx)
            return self.simple(stmt.lineno, "mark " + tgt.id, lambda env, upd, f=val.fn, n=tgt.id: upd.__setitem__(n, f(env)), k)
        # x = modelled_call(...)
        if isinstance(tgt, ast.Name):
            info = self.lo.is_modelled_call(value, ctx) if isinstance(value, (ast.Call, ast.Attribute)) else None
            if info and (isinstance(value, ast.Call) or (info[0], info[1]) in self.lo.properties):
                return self.call_modelled(info, ctx, stmt.lineno, tgt.id, k)
            if isinstance(value, ast.Call) and self.is_effect_prim(value, ctx):
                return self.prim_stmt(stmt, value, ctx, k, tgt.id)

            def build(new, line):
                val = self.ex.compile(new[0], ctx)
                eff = self.set_local(ctx, tgt.id, val)
                return self.simple(line, "assign " + tgt.id, eff, k, kind="stmt" if line else "internal")

            return self.with_hoisting(stmt, [value], ctx, build)
        if isinstance(tgt, ast.Tuple) and isinstance(value, ast.Tuple) and len(tgt.elts) == len(value.elts) \
                and all(isinstance(e, ast.Name) for e in tgt.elts):
            # a, b = x, y  (right-hand sides are evaluated first)
            def build(new, line):
                vals = [self.ex.compile(e, ctx) for e in new]
                tmps = []
                for v in vals:
                    self.tmp += 1
                    tmps.append((self.lo.declare_local(ctx, "_pair{0}".format(self.tmp), False if v.sort == "bool" else 0), v))
                effs = []
                for e, (tmpname, v) in zip(tgt.elts, tmps):
                    effs.append(self.set_local(ctx, e.id, Val(v.sort, (lambda env, n=tmpname: env.l(n)), v.base)))

                def eff(env, upd):
                    first = {}
                    for tmpname, v in tmps:
                        first[env.lname(tmpname)] = v.fn(env)
                    upd.update(first)
                    shadow = dict(env.state)
                    shadow.update(first)
                    env2 = core.Env(env.system, shadow, env.tid, env.choice)
                    for e in effs:
                        e(env2, upd)

                return self.simple(line, "assign pair", eff, k, kind="stmt" if line else "internal")

            return self.with_hoisting(stmt, list(value.elts), ctx, build)
        if isinstance(tgt, ast.Tuple):
            # method, args, kwargs, future = task
            names = [e.id for e in tgt.elts if isinstance(e, ast.Name)]
            if len(names) != 4 or len(names) != len(tgt.elts):
                raise Unsupported("tuple unpacking at line {0}".format(stmt.lineno))
            src = self.ex.compile(value, ctx)
            if src.sort not in ("Task", "id"):
                raise Unsupported("unpacking a {0}".format(src.sort))
            U = self.U
            effs = [
                self.set_local(ctx, names[0], Val("Task", src.fn)),
                self.set_local(ctx, names[1], const("Opaque", OPAQUE)),
                self.set_local(ctx, names[2], const("Opaque", OPAQUE)),
                self.set_local(ctx, names[3], Val("Future", lambda env, f=src.fn: sub(f(env), U.TASK0), "F")),
            ]

            def eff(env, upd):
                for e in effs:
                    e(env, upd)

            return self.simple(stmt.lineno, "unpack task", eff, k)
        if isinstance(tgt, ast.Attribute):

            def build(new, line):
                return self.store_attr(tgt, new[0], ctx, k, line, stmt.lineno)

            return self.with_hoisting(stmt, [value], ctx, build)
        raise Unsupported("assignment target at line {0}".format(stmt.lineno))

    def store_attr(self, tgt, value_ast, ctx, k, line, lineno):
        recv = self.ex.compile(tgt.value, ctx)
        cls = {"Pool": "ThreadPool", "Future": "FutureResult", "EventData": "EventData"}.get(recv.sort)
        kind = "stmt" if line else "internal"
        if recv.sort == "Thread":
            return self.simple(line, "thread attribute", None, k, kind=kind)  # thread.daemon = True
        if not cls:
            raise Unsupported("store to attribute of {0} at line {1}".format(recv.sort, lineno))
        own = isinstance(tgt.value, ast.Name) and tgt.value.id == "self"
        attr = self.lo.mangle(ctx.cls if own else cls, tgt.attr)
        if (cls, attr) not in self.lo.field_sorts:
            raise Unsupported("store to unknown field {0}.{1}".format(cls, attr))
        sort, full = self.lo.field_sorts[(cls, attr)]
        if sort not in ("int", "bool", "id"):
            raise Unsupported("re-binding the {0} field {1}".format(sort, attr))
        val = self.ex.compile(value_ast, ctx)
        vfn = val.fn if val.sort in ("int", "bool") else as_id(val, self.U)
        M = self.U.M

        def eff(env, upd):
            if cls == "ThreadPool":
                upd[full] = vfn(env)
            else:
                arr_write(upd, env, full, recv.fn(env), M, vfn(env))

        return self.simple(line, "store " + attr, eff, k, kind=kind)

    def s_AugAssign(self, stmt, ctx, k):
        op = add if isinstance(stmt.op, ast.Add) else sub if isinstance(stmt.op, ast.Sub) else None
        if op is None:
            raise Unsupported("augmented operator")
        plus = isinstance(stmt.op, ast.Add)
        rhs = self.ex.compile(stmt.value, ctx)
        tgt = stmt.target
        if isinstance(tgt, ast.Name):
            cur = self.ex.compile(ast.Name(id=tgt.id, ctx=ast.Load()), ctx)
            val = Val("int", lambda env: op(cur.fn(env), rhs.fn(env)))
            return self.simple(stmt.lineno, "aug " + tgt.id, self.set_local(ctx, tgt.id, val), k)
        if isinstance(tgt, ast.Attribute):
            load = ast.Attribute(value=tgt.value, attr=tgt.attr, ctx=ast.Load())
            cur = self.ex.compile(load, ctx)
            recv = self.ex.compile(tgt.value, ctx)
            cls = {"Pool": "ThreadPool", "Future": "FutureResult", "EventData": "EventData"}.get(recv.sort)
            own = isinstance(tgt.value, ast.Name) and tgt.value.id == "self"
            attr = self.lo.mangle(ctx.cls if own else cls, tgt.attr)
            sort, full = self.lo.field_sorts[(cls, attr)]
            M = self.U.M

            def eff(env, upd):
                a, b = cur.fn(env), rhs.fn(env)
                upd["overflow"] = or_(env.g("overflow"), core.overflows(a, b, plus))
                if cls == "ThreadPool":
                    upd[full] = op(a, b)
                else:
                    arr_write(upd, env, full, recv.fn(env), M, op(a, b))

            return self.simple(stmt.lineno, "aug " + attr, eff, k)
        raise Unsupported("augmented assignment target")

    def s_If(self, stmt, ctx, k):
        then = self.block(stmt.body, ctx, k)
        other = self.block(stmt.orelse, ctx, k) if stmt.orelse else k

        def build(new, line):
            test = self.ex.compile(new[0], ctx)

            def run(env):
                c = truthy(test.fn(env))
                return [(c, {}, then.pc), (not_(c), {}, other.pc)]

            return Label(self.node(line, "if", run, kind="stmt" if line else "internal"))

        return self.with_hoisting(stmt, [stmt.test], ctx, build)

    def s_While(self, stmt, ctx, k):
        if stmt.orelse:
            raise Unsupported("while/else")
        head = Label()
        body = self.block(stmt.body, ctx, head)

        def build(new, line):
            test = self.ex.compile(new[0], ctx)

            def run(env):
                c = truthy(test.fn(env))
                return [(c, {}, body.pc), (not_(c), {}, k.pc)]

            return Label(self.node(line, "while", run, kind="stmt" if line else "internal"))

        head.bind(self.with_hoisting(stmt, [stmt.test], ctx, build))
        return head

    def s_For(self, stmt, ctx, k):
        if stmt.orelse:
            raise Unsupported("for/else")
        U = self.U
        it = stmt.iter
        var = stmt.target.id if isinstance(stmt.target, ast.Name) else None
        if var is None:
            raise Unsupported("for target")
        self.tmp += 1
        cnt = "_for{0}".format(self.tmp)
        cfull = self.lo.declare_local(ctx, cnt)
        lfull = self.lo.declare_local(ctx, cnt + "_n")
        head = Label()
        if isinstance(it, ast.Call) and isinstance(it.func, ast.Name) and it.func.id == "range" and len(it.args) == 1:
            limit = self.ex.compile(it.args[0], ctx)
            self.set_local(ctx, var, const("int", 0))
            body = self.block(stmt.body, ctx, head)

            def first(env):
                n = limit.fn(env)
                go = lt(0, n)
                return [(go, {env.lname(cfull): 1, env.lname(lfull): n}, body.pc),
                        (not_(go), {env.lname(cfull): 0, env.lname(lfull): n}, k.pc)]

            def again(env):
                i, n = env.l(cfull), env.l(lfull)
                go = lt(i, n)
                return [(go, {env.lname(cfull): add(i, 1)}, body.pc), (not_(go), {}, k.pc)]

            head.bind(Label(self.node(stmt.lineno, "for", again)))
            return Label(self.node(stmt.lineno, "for-first", first))
        src = self.ex.compile(it, ctx)
        if src.sort == "ThreadSet":
            # iteration over the LIVE list of threads (the field itself or an alias of it):
            # Python's list iterator is positional -- the i-th element of the list as it is
            # now -- so removals by exiting workers make it skip elements.  The thread list
            # keeps insertion order = slot order.
            base = src.base
            vfull = self.lo.declare_local(ctx, var)
            ctx.locals[var] = ("Thread", None)
            body = self.block(stmt.body, ctx, head)

            def live(env, pos):
                outs = []
                seen = 0
                found = False
                for w in range(U.W):
                    member = env.g("{0}[{1}]".format(base, w))
                    here = and_(member, eq(seen, pos), not_(found))
                    outs.append((here, {env.lname(vfull): w, env.lname(cfull): add(pos, 1)}, body.pc))
                    found = or_(found, here)
                    seen = add(seen, ite(member, 1, 0))
                outs.append((not_(found), {}, k.pc))
                return outs

            head.bind(Label(self.node(stmt.lineno, "for-live-threads", lambda env: live(env, env.l(cfull)))))
            return Label(self.node(stmt.lineno, "for-live-threads-first", lambda env: live(env, 0)))
        if src.sort == "ThreadSetLocal":
            read = lambda env, w, b=src.base: env.l("{0}[{1}]".format(b, w))  # noqa
        else:
            raise Unsupported("for over {0}".format(src.sort))
        snap = [self.lo.declare_local(ctx, "{0}_s[{1}]".format(cnt, w), False) for w in range(U.W)]
        vfull = self.lo.declare_local(ctx, var)
        ctx.locals[var] = ("Thread", None)
        body = self.block(stmt.body, ctx, head)

        def pick(env, bits, upd):
            """next member >= cursor: outcomes per slot"""
            outs = []
            none_left = True
            taken = False
            for w in range(U.W):
                here = and_(bits[w], not_(taken))
                u = dict(upd)
                u[env.lname(vfull)] = w
                for w2 in range(U.W):
                    u[env.lname(snap[w2])] = bits[w2] if w2 > w else False
                outs.append((here, u, body.pc))
                taken = or_(taken, bits[w])
            outs.append((not_(taken), dict(upd), k.pc))
            return outs

        def first(env):
            bits = [read(env, w) for w in range(U.W)]
            return pick(env, bits, {})

        def again(env):
            bits = [env.l(snap[w]) for w in range(U.W)]
            return pick(env, bits, {})

        head.bind(Label(self.node(stmt.lineno, "for-threads", again)))
        return Label(self.node(stmt.lineno, "for-threads-first", first))

    def s_With(self, stmt, ctx, k):
        if len(stmt.items) != 1 or stmt.items[0].optional_vars is not None:
            raise Unsupported("with statement form")
        cm = self.ex.compile(stmt.items[0].context_expr, ctx)
        line = stmt.lineno
        if cm.sort in ("RLock", "Lock"):
            base = cm.base
            reentrant = cm.sort == "RLock"
            per_instance = not base.startswith("P.")
            M = self.U.M

            def rd(env, what):
                if per_instance:
                    return env.arr(base + what, cm.fn(env), M)
                return env.g(base + what)

            def wr(env, upd, what, value):
                if per_instance:
                    arr_write(upd, env, base + what, cm.fn(env), M, value)
                else:
                    upd[base + what] = value

            def acquire(env):
                owner, depth = rd(env, ".owner"), rd(env, ".depth")
                ok = or_(eq(owner, -1), eq(owner, env.tid)) if reentrant else eq(owner, -1)
                upd = {}
                wr(env, upd, ".owner", env.tid)
                wr(env, upd, ".depth", add(depth, 1))
                return ok, upd

            def release(env):
                depth = sub(rd(env, ".depth"), 1)
                upd = {}
                wr(env, upd, ".depth", depth)
                wr(env, upd, ".owner", ite(eq(depth, 0), -1, rd(env, ".owner")))
                return upd

        elif cm.sort == "Cond":
            base = cm.base

            def acquire(env):
                return eq(env.g(base + ".mutex"), -1), {base + ".mutex": env.tid}

            def release(env):
                return {base + ".mutex": -1}

        else:
            raise Unsupported("with {0}".format(cm.sort))

        is_rlock = cm.sort in ("RLock", "Lock")

        def make_release(target):
            def run(env):
                return [(True, release(env), target.pc)]

            nid = self.node(line, "with-exit", run, kind="with-exit")
            self.sys.nodes[nid].rlock = is_rlock
            return Label(nid)

        inner = ctx.child(unwind=ctx.unwind + (("with", make_release, base if is_rlock else None),))
        body = self.block(stmt.body, inner, make_release(k))

        def enter(env):
            ok, upd = acquire(env)
            return [(ok, upd, body.pc)]

        nid = self.node(line, "with-enter", enter, kind="with-enter")
        self.sys.nodes[nid].rlock = is_rlock
        return Label(nid)

    def s_Try(self, stmt, ctx, k):
        # lowered in program order (body, else, handlers on demand, finally) so that
        # the static sorts of locals assigned in the body are known afterwards
        after = Label() if stmt.finalbody else k
        fin_ctx = ctx
        if stmt.finalbody:
            fin_ctx = ctx.child(unwind=ctx.unwind + (("finally", tuple(stmt.finalbody), ctx),))
        body_ctx = fin_ctx
        if stmt.handlers:
            body_ctx = fin_ctx.child(unwind=fin_ctx.unwind + (("try", tuple(stmt.handlers), fin_ctx, after),))
        cont = Label() if stmt.orelse else after
        body = self.block(stmt.body, body_ctx, cont)
        if stmt.orelse:
            cont.bind(self.block(stmt.orelse, fin_ctx, after))
        if stmt.finalbody:
            after.bind(self.block(stmt.finalbody, ctx, k))
        return self.simple(stmt.lineno, "try", None, body)

    def s_Return(self, stmt, ctx, k):
        ret = ctx.ret
        if ret is None:
            raise Unsupported("return outside an inlined function")

        def build(new, line):
            val = self.ex.compile(new[0], ctx) if new[0] is not None else None
            eff = ret.store(val)
            target = self.return_target(ctx, ret.target)
            return self.simple(line, "return", eff, target, kind="stmt" if line else "internal")

        return self.with_hoisting(stmt, [stmt.value], ctx, build)

    def s_Raise(self, stmt, ctx, k):
        U = self.U
        if stmt.exc is None:
            cls = ctx.cur_exc_class
            if cls is None:
                raise Unsupported("bare raise outside a handler")
            return self.simple(stmt.lineno, "re-raise", None, self.raise_target(ctx, cls))
        exc = stmt.exc
        if isinstance(exc, ast.Call) and isinstance(exc.func, ast.Name):
            name = exc.func.id
            ident = {"OSError": U.EXC_TIMEOUT, "IOError": U.EXC_TIMEOUT, "ValueError": U.EXC_VALUE, "RuntimeError": U.EXC_RT}.get(name)
            if ident is None:
                raise Unsupported("raise {0}".format(name))
            cls = "OSError" if name == "IOError" else name
            target = self.raise_target(ctx, cls)
            return self.simple(stmt.lineno, "raise " + name, lambda env, upd: upd.__setitem__(env.lname("exc"), ident), target)

        def build(new, line):
            val = self.ex.compile(new[0], ctx)
            fn = as_id(val, U)
            target = self.raise_target(ctx, "Exception*")
            return self.simple(line, "raise <stored>", lambda env, upd: upd.__setitem__(env.lname("exc"), fn(env)), target,
                               kind="stmt" if line else "internal")

        return self.with_hoisting(stmt, [exc], ctx, build)

    def s_Delete(self, stmt, ctx, k):
        tgt = stmt.targets[0]
        if isinstance(tgt, ast.Subscript) and isinstance(tgt.slice, ast.Slice):
            recv = self.ex.compile(tgt.value, ctx)
            if recv.sort == "ThreadSet":
                U = self.U

                def eff(env, upd, b=recv.base):
                    for w in range(U.W):
                        upd["{0}[{1}]".format(b, w)] = False

                return self.simple(stmt.lineno, "clear threads", eff, k)
        raise Unsupported("del statement at line {0}".format(stmt.lineno))

    # -- primitive operations ----------------------------------------------------------
    def is_effect_prim(self, call, ctx):
        f = call.func
        if isinstance(f, ast.Name):
            if f.id in ("FutureResult",):
                return True
            if f.id in ctx.locals and ctx.locals[f.id][0] in ("Task", "id"):
                return True  # method(*args, **kwargs)
            return False
        if isinstance(f, ast.Attribute):
            if isinstance(f.value, ast.Name) and f.value.id == "threading" and f.attr == "Thread":
                return True
            try:
                recv = self.ex.compile(f.value, ctx)
            except Unsupported:
                return False
            if recv.sort == "Queue" and f.attr in ("get", "get_nowait", "put", "task_done", "join"):
                return True
            if recv.sort == "Event" and f.attr in ("wait", "set", "clear"):
                return True
            if recv.sort == "Cond" and f.attr == "wait":
                return True
            if recv.sort == "Thread" and f.attr in ("start", "join"):
                return True
            if recv.sort in ("ThreadSet",) and f.attr in ("append", "remove"):
                return True
            if recv.sort in ("id",) and f.attr == "__call__":
                return True
        return False

    def prim_stmt(self, stmt, call, ctx, k, result_name, _line="stmt"):
        """
        Statement `call` or `result_name = call` where call is a primitive.
        """
        U = self.U
        lo = self.lo
        line = stmt.lineno if _line == "stmt" else _line
        f = call.func
        args = call.args
        if _line == "stmt":
            # modelled calls / properties among the arguments run first
            import copy

            hoisted = []
            new_args = [self.hoist(copy.deepcopy(a), ctx, hoisted) for a in args]
            if hoisted:
                new_call = ast.Call(func=call.func, args=new_args, keywords=call.keywords)
                ast.copy_location(new_call, call)
                entry = Label()
                cur = entry
                cline = stmt.lineno
                if isinstance(f, ast.Attribute) and self._is_field(f, ctx):
                    # Python evaluates the callee expression first: the stored callable
                    # is read when the line starts, before the argument getters run
                    fv0 = self.ex.compile(f, ctx)
                    self.tmp += 1
                    loaded = self.lo.declare_local(ctx, "_callee{0}".format(self.tmp))
                    new_call._callee_local = loaded
                    after = Label()
                    cur.bind(self.simple(cline, "load stored callable",
                                         (lambda env, upd, n=loaded, fn=fv0.fn: upd.__setitem__(env.lname(n), fn(env))), after))
                    cur = after
                    cline = None
                for tmp, info in hoisted:
                    after = Label()
                    cur.bind(self.call_modelled(info, ctx, cline, tmp, after))
                    cur = after
                    cline = None
                cur.bind(self.prim_stmt(stmt, new_call, ctx, k, result_name, _line=None))
                return entry

        def arg(i, default=None):
            if i < len(args):
                return self.ex.compile(args[i], ctx)
            return default

        def finish(label, outcomes_fn, sort="id", base=None, raises=()):
            run, _ = self.prim_node(line, label, outcomes_fn, ctx, k, result_name, sort, base, raises)
            return Label(self.node(line, label, run, kind="prim"))

        # ---- logging / formatting: no-ops -------------------------------------------
        if isinstance(f, ast.Attribute):
            try:
                recv0 = self.ex.compile(f.value, ctx)
            except Unsupported:
                recv0 = None
            if recv0 is not None and (recv0.sort == "Logger" or (
                    recv0.sort == "Opaque" and f.attr in ("debug", "info", "warning", "error", "exception", "critical", "format"))):
                named = []
                for a in args:
                    for part in ast.walk(a):
                        if (isinstance(part, ast.Attribute) and part.attr == "__name__" and isinstance(part.value, ast.Name)
                                and ctx.locals.get(part.value.id, (None,))[0] == "Task"):
                            named.append(self.ex.compile(part.value, ctx))
                if named and any(U.task_noname):
                    # evaluating <callable>.__name__ fails for callables that have none
                    target = self.raise_target(ctx, "AttributeError")

                    def run(env, named=named):
                        missing = False
                        for v in named:
                            idx = sub(v.fn(env), U.TASK0)
                            for i in range(U.M):
                                if U.task_noname[i]:
                                    missing = or_(missing, eq(idx, i))
                        return [(missing, {env.lname("exc"): U.EXC_VALUE}, target.pc), (not_(missing), {}, k.pc)]

                    return Label(self.node(line, "log (reads __name__)", run, kind="stmt" if line else "internal"))
                return self.simple(line, "no-op " + f.attr, None, k, kind="stmt" if line else "internal")
        # ---- task body: method(*args, **kwargs) ---------------------------------------
        if isinstance(f, ast.Name) and f.id in ctx.locals and ctx.locals[f.id][0] == "id" and len(args) == 3 \
                and not any(isinstance(a, ast.Starred) for a in args):
            # a callback taken out of its field into a local: callback(result, exception, extra)
            fv = self.ex.compile(f, ctx)
            vals = [as_id(self.ex.compile(a, ctx), U) for a in args]
            return self.callback_call(line, fv, vals, ctx, k)
        if isinstance(f, ast.Name) and f.id in ctx.locals and ctx.locals[f.id][0] in ("Task", "id"):
            task = self.ex.compile(f, ctx)
            return self.task_call(line, task, ctx, k, result_name)
        # ---- callback: self.__callback(data, exception, extra) --------------------------
        if isinstance(f, ast.Attribute):
            fv = self.ex.compile(f, ctx) if self._is_field(f, ctx) else None
            if fv is not None and fv.sort == "id":
                vals = [as_id(self.ex.compile(a, ctx), U) for a in args]
                loaded = getattr(call, "_callee_local", None)
                if loaded is not None:
                    fv = Val("id", lambda env, n=loaded: env.l(n))
                return self.callback_call(line, fv, vals, ctx, k)
        # ---- FutureResult(...) -----------------------------------------------------------
        if isinstance(f, ast.Name) and f.id == "FutureResult":
            task_locals = [n for n, (s, _) in ctx.locals.items() if s == "Task"]
            if len(task_locals) != 1:
                raise Unsupported("cannot identify the task a FutureResult is created for")
            task = self.ex.compile(ast.Name(id=task_locals[0], ctx=ast.Load()), ctx)
            lo.encoded_functions.add("FutureResult.__init__")
            lo.encoded_functions.add("EventData.__init__")
            fresh = {}
            for (cls, attr), (sort, full) in lo.field_sorts.items():
                if cls in ("FutureResult", "EventData"):
                    if sort in ("int", "bool", "id"):
                        fresh[full] = lo.system.init[full + "[0]"]
                    elif sort == "Event":
                        fresh[full + ".flag"] = False
                    elif sort in ("RLock", "Lock"):
                        fresh[full + ".owner"] = -1
                        fresh[full + ".depth"] = 0

            def outcomes(env):
                idx = sub(task.fn(env), U.TASK0)

                def eff(env, upd):
                    for full, value in fresh.items():
                        arr_write(upd, env, full, idx, U.M, value)

                return [PrimOutcome(True, eff, None, idx)]

            return finish("new FutureResult", outcomes, "Future", "F")
        # ---- threading.Thread(target=self.__run, ...) --------------------------------------
        if isinstance(f, ast.Attribute) and isinstance(f.value, ast.Name) and f.value.id == "threading" and f.attr == "Thread":
            target = [kw.value for kw in call.keywords if kw.arg == "target"]
            if not target or not isinstance(target[0], ast.Attribute):
                raise Unsupported("Thread without target=self.<method>")
            tname = target[0].attr
            found = [n for (c, n) in lo.methods if c == ctx.cls and lo.mangle(c, n) == lo.mangle(ctx.cls, tname)]
            if not found:
                raise Unsupported("thread target {0}".format(tname))
            lo.thread_target = (ctx.cls, found[0])

            def outcomes(env):
                outs = []
                taken = False
                for w in range(U.W):
                    free = eq(env.g("W.state[{0}]".format(w)), 0)
                    here = and_(free, not_(taken))
                    outs.append(PrimOutcome(here, lambda env, upd, w=w: upd.__setitem__("W.state[{0}]".format(w), 1), None, w))
                    taken = or_(taken, free)
                # no free slot: the bound W of the scenario is exceeded
                outs.append(PrimOutcome(not_(taken), lambda env, upd: upd.__setitem__("W.overflow", True), None, 0))
                return outs

            return finish("new Thread", outcomes, "Thread", None)
        if not isinstance(f, ast.Attribute):
            raise Unsupported("call at line {0}".format(line))
        recv = self.ex.compile(f.value, ctx)
        name = f.attr
        # ---- Event ---------------------------------------------------------------------------
        if recv.sort == "Event":
            if name == "set":
                return self.simple(line, "Event.set", lambda env, upd: event_write(upd, env, recv, U, True), k, kind="prim")
            if name == "clear":
                return self.simple(line, "Event.clear", lambda env, upd: event_write(upd, env, recv, U, False), k, kind="prim")
            if name == "wait":
                timeout = arg(0, const("none", NONE))

                timed = has_timeout(timeout)

                def outcomes(env):
                    flag = event_flag(env, recv, U)
                    return [PrimOutcome(flag, None, None, True),
                            PrimOutcome(and_(not_(flag), timed(env)), None, None, False)]

                return finish("Event.wait", outcomes, "bool")
        # ---- Queue ---------------------------------------------------------------------------
        if recv.sort == "Queue":
            b = recv.base
            free = lambda env: eq(env.g(b + ".mutex"), -1)  # noqa

            def pop_front(env, upd):
                n = env.g(b + ".len")
                for i in range(U.Q - 1):
                    upd["{0}.item[{1}]".format(b, i)] = env.g("{0}.item[{1}]".format(b, i + 1))
                upd["{0}.item[{1}]".format(b, U.Q - 1)] = NONE
                upd[b + ".len"] = sub(n, 1)

            if name in ("get", "get_nowait"):
                timeout = arg(1, const("none", NONE)) if name == "get" else const("int", 1)
                block = arg(0, const("bool", True)) if name == "get" else const("bool", False)

                def outcomes(env):
                    n = env.g(b + ".len")
                    nonempty = gt(n, 0)
                    may_timeout = or_(not_(truthy(block.fn(env))), has_timeout(timeout)(env))
                    return [PrimOutcome(and_(free(env), nonempty), pop_front, None, env.g(b + ".item[0]")),
                            PrimOutcome(and_(free(env), not_(nonempty), may_timeout), None, "Empty", U.EXC_EMPTY)]

                return finish("Queue." + name, outcomes, "Task", raises=("Empty",))
            if name == "put":
                item = as_id(arg(0), U)
                timeout = arg(2, const("none", NONE))

                def outcomes(env):
                    n = env.g(b + ".len")
                    maxsize = env.g(b + ".maxsize")
                    full = and_(gt(maxsize, 0), ge(n, maxsize))

                    def eff(env, upd):
                        arr_write(upd, env, b + ".item", n, U.Q, item(env))
                        upd[b + ".len"] = add(n, 1)
                        upd[b + ".unfinished"] = add(env.g(b + ".unfinished"), 1)
                        upd[b + ".overflow"] = or_(env.g(b + ".overflow"), ge(n, U.Q - 1))

                    return [PrimOutcome(and_(free(env), not_(full)), eff, None, NONE),
                            PrimOutcome(and_(free(env), full, has_timeout(timeout)(env)), None, "Full", U.EXC_FULL)]

                return finish("Queue.put", outcomes, "none", raises=("Full",))
            if name == "task_done":
                def outcomes(env):
                    u = env.g(b + ".unfinished")
                    return [PrimOutcome(and_(free(env), gt(u, 0)), lambda env, upd: upd.__setitem__(b + ".unfinished", sub(u, 1)), None, NONE),
                            PrimOutcome(and_(free(env), le(u, 0)), None, "ValueError", U.EXC_VALUE)]

                return finish("Queue.task_done", outcomes, "none", raises=("ValueError",))
            if name == "join":
                def outcomes(env):
                    return [PrimOutcome(and_(free(env), eq(env.g(b + ".unfinished"), 0)), None, None, NONE)]

                return finish("Queue.join", outcomes, "none")
        # ---- Condition.wait(timeout) (the queue's all_tasks_done) -----------------------------
        if recv.sort == "Cond" and name == "wait":
            b = recv.base
            timeout = arg(0, const("none", NONE))
            # (wait(None) would need notification tracking; every call site that can reach this
            # statement passes a number -- with None the code takes the Queue.join() branch)

            def reacquire(env):
                return [(eq(env.g(b + ".mutex"), -1), {b + ".mutex": env.tid}, k.pc)]

            back = Label(self.node(None, "Condition.wait: re-acquire", reacquire, kind="internal"))
            return self.simple(line, "Condition.wait: release", lambda env, upd: upd.__setitem__(b + ".mutex", -1), back, kind="prim")
        # ---- Thread ----------------------------------------------------------------------------
        if recv.sort == "Thread":
            if name == "start":
                def outcomes(env):
                    idx = recv.fn(env)

                    def eff(env, upd):
                        for w in range(U.W):
                            hit = eq(idx, w)
                            upd["W.state[{0}]".format(w)] = ite(hit, 2, env.g("W.state[{0}]".format(w)))
                            pcvar = "T{0}.pc".format(U.C + w)
                            upd[pcvar] = ite(hit, lo.run_entry.pc, env.g(pcvar))

                    def unreserve(env, upd):
                        # the thread object that failed to start is dropped: its slot is free again
                        # (slots then number the threads that really started, as the replay does)
                        for w in range(U.W):
                            upd["W.state[{0}]".format(w)] = ite(eq(idx, w), 0, env.g("W.state[{0}]".format(w)))
                        upd["start_failures_left"] = sub(env.g("start_failures_left"), 1)

                    # at most `start_failures_left` attempts fail (transient resource exhaustion)
                    fail = and_(gt(env.g("start_failures_left"), 0), eq(env.choice, 1))
                    return [PrimOutcome(not_(fail), eff, None, NONE), PrimOutcome(fail, unreserve, "RuntimeError", U.EXC_RT)]

                return finish("Thread.start", outcomes, "none", raises=("RuntimeError",))
            if name == "join":
                timeout = arg(0, const("none", NONE))

                def outcomes(env):
                    dead = ne(env.arr("W.state", recv.fn(env), U.W), 2)
                    return [PrimOutcome(or_(dead, has_timeout(timeout)(env)), None, None, NONE)]

                return finish("Thread.join", outcomes, "none")
        # ---- list of threads ---------------------------------------------------------------------
        if recv.sort == "ThreadSet":
            b = recv.base
            member = arg(0)
            if name == "append":
                def eff(env, upd):
                    idx = member.fn(env)
                    for w in range(U.W):
                        upd["{0}[{1}]".format(b, w)] = or_(env.g("{0}[{1}]".format(b, w)), eq(idx, w))

                return self.simple(line, "threads.append", eff, k, kind="prim")
            if name == "remove":
                def outcomes(env):
                    idx = member.fn(env)
                    present = False
                    for w in range(U.W):
                        present = or_(present, and_(eq(idx, w), env.g("{0}[{1}]".format(b, w))))

                    def eff(env, upd):
                        for w in range(U.W):
                            upd["{0}[{1}]".format(b, w)] = and_(env.g("{0}[{1}]".format(b, w)), ne(idx, w))

                    return [PrimOutcome(present, eff, None, NONE), PrimOutcome(not_(present), None, "ValueError", U.EXC_VALUE)]

                return finish("threads.remove", outcomes, "none", raises=("ValueError",))
        raise Unsupported("primitive call {0}.{1} at line {2}".format(recv.sort, name, line))

    def _is_field(self, attr_ast, ctx):
        try:
            recv = self.ex.compile(attr_ast.value, ctx)
        except Unsupported:
            return False
        cls = {"Pool": "ThreadPool", "Future": "FutureResult", "EventData": "EventData"}.get(recv.sort)
        if not cls:
            return False
        own = isinstance(attr_ast.value, ast.Name) and attr_ast.value.id == "self"
        return (cls, self.lo.mangle(ctx.cls if own else cls, attr_ast.attr)) in self.lo.field_sorts

    def task_call(self, line, task, ctx, k, result_name):
        """
        result = method(*args, **kwargs): the task body, two steps (begin / end).
        The lines are those of the generated task functions (scenario module).
        """
        U = self.U
        lo = self.lo
        if result_name is not None:
            full = lo.declare_local(ctx, result_name)
            ctx.locals[result_name] = ("id", None)
        else:
            full = None
        cur = lo.declare_local(ctx, "_task")
        raise_t = self.raise_target(ctx, "Exception*")
        raise_base = self.raise_target(ctx, "BaseException*") if "raise_base" in U.task_kinds else None

        def end(env):
            idx = env.l(cur)
            outs = []
            for i in range(U.M):
                here = eq(idx, i)
                kind = U.task_kinds[i]
                gate_ok = True
                if kind.startswith("gate"):
                    gate_ok = env.g("G.flag[{0}]".format(int(kind[4:] or 0)))
                upd = {"running": sub(env.g("running"), 1), "finished[{0}]".format(i): True}
                if kind.startswith("open"):
                    upd["G.flag[{0}]".format(int(kind[4:] or 0))] = True
                if kind == "raise_base":
                    upd[env.lname("exc")] = U.EXC0 + i
                    outs.append((and_(here, gate_ok), upd, raise_base.pc))
                elif kind == "raise":
                    upd[env.lname("exc")] = U.EXC0 + i
                    outs.append((and_(here, gate_ok), upd, raise_t.pc))
                else:
                    if full is not None:
                        upd[env.lname(full)] = U.RES0 + i
                    outs.append((and_(here, gate_ok), upd, k.pc))
            return outs

        end_label = Label(self.node(("task", "end"), "task body: finish", end, kind="task-end"))

        def begin(env):
            idx = sub(task.fn(env), U.TASK0)
            upd = {env.lname(cur): idx}
            run = add(env.g("running"), 1)
            upd["running"] = run
            upd["max_running"] = ite(gt(run, env.g("max_running")), run, env.g("max_running"))
            seq = env.g("start_seq")
            upd["start_seq"] = add(seq, 1)
            for i in range(U.M):
                hit = eq(idx, i)
                cnt = env.g("exec_count[{0}]".format(i))
                upd["exec_count[{0}]".format(i)] = ite(hit, add(cnt, 1), cnt)
                upd["start_order[{0}]".format(i)] = ite(hit, seq, env.g("start_order[{0}]".format(i)))
            upd["ran_while_stopped"] = or_(env.g("ran_while_stopped"), env.g("stop_returned"))
            bad = not_(and_(ge(idx, 0), lt(idx, U.M)))
            upd["bad_task"] = or_(env.g("bad_task"), bad)
            return [(True, upd, end_label.pc)]

        # the call line itself (in threadpool.py) transfers control into the task function
        body = Label(self.node(("task", "begin"), "task body: begin", begin, kind="task-begin"))
        return self.simple(line, "call task", None, body)

    def callback_call(self, line, cb, vals, ctx, k):
        """
        self.__callback(result, exception, extra): the call transfers control into
        the callback function (one body line in the scenario module) where the
        invocation is recorded; kinds: ret / raise (Exception) / arity (TypeError).
        """
        U = self.U
        raise_exc = self.raise_target(ctx, "Exception*")
        raise_type = self.raise_target(ctx, "TypeError")
        if len(vals) != 3:
            raise Unsupported("callback called with {0} arguments".format(len(vals)))
        for name in ("_cb", "_cb_data", "_cb_exc", "_cb_extra"):
            self.lo.thread_locals.add(name)
            self.lo.local_init.setdefault(name, 0)

        def run_body(env):
            cbid = env.l("_cb")
            data, exc, extra = env.l("_cb_data"), env.l("_cb_exc"), env.l("_cb_extra")
            outs = []
            for j in range(U.R):
                here = eq(cbid, U.CB0 + j)
                upd = {}
                upd["cb_count[{0}]".format(j)] = add(env.g("cb_count[{0}]".format(j)), 1)
                upd["cb_data[{0}]".format(j)] = data
                upd["cb_exc[{0}]".format(j)] = exc
                upd["cb_extra[{0}]".format(j)] = extra
                upd["cb_wrong_extra"] = or_(env.g("cb_wrong_extra"), ne(extra, NONE if j in U.extra_none else U.EXTRA0 + j))
                kind = U.cb_kinds[j]
                if kind == "raise":
                    upd[env.lname("exc")] = U.EXC_CB
                    outs.append((here, upd, raise_exc.pc))
                elif kind == "arity":
                    upd[env.lname("exc")] = U.EXC_VALUE
                    outs.append((here, upd, raise_type.pc))
                else:
                    outs.append((here, upd, k.pc))
            return outs

        body = Label(self.node(("callback", "body"), "callback body", run_body, kind="callback"))

        def call(env, upd):
            upd[env.lname("_cb")] = cb.fn(env)
            upd[env.lname("_cb_data")] = vals[0](env)
            upd[env.lname("_cb_exc")] = vals[1](env)
            upd[env.lname("_cb_extra")] = vals[2](env)

        return self.simple(line, "invoke callback", call, body, kind="stmt" if line else "internal")


# ---------------------------------------------------------------------------
# building a system for a scenario


def build_system(source, filename, universe, client_programs, allow_start_failure=False):
    """
    source: text of jsonrpclib/threadpool.py; client_programs: list of source
    texts (one function body per client thread, names: pool, TASK<i>, CB<j>,
    EXTRA<j>, GATE<g>; assignments to names in MARKS set global monitor flags).
    Returns (system, lowering)
    """
    U = universe
    lo = Lowering(source, filename, U)
    lo.cur_file = filename
    lo.forwards = []
    lo.scenario_consts = {"pool": const("Pool", 0)}
    for i in range(U.M):
        lo.scenario_consts["TASK{0}".format(i)] = const("Task", U.task(i))
    for i in range(U.M):
        lo.scenario_consts["FUT{0}".format(i)] = const("Future", i, "F")
    for j in range(U.R):
        lo.scenario_consts["CB{0}".format(j)] = const("id", U.CB0 + j)
        lo.scenario_consts["EXTRA{0}".format(j)] = const("id", U.EXTRA0 + j)
    for g in range(U.G):
        lo.scenario_consts["GATE{0}".format(g)] = Val("Event", (lambda env, g=g: g), "G", const=g)
    lo.scenario_consts["TIMEOUT"] = const("id", U.EXC_TIMEOUT)
    lo.scenario_consts["TMO"] = const("int", 1)
    lo.scenario_consts["NOWAIT"] = const("int", 0)
    sl = StmtLowering(lo)
    lo.sl = sl
    system = lo.system
    init = system.init
    # monitors
    for name in ("running", "max_running", "start_seq"):
        init[name] = 0
    for name in ("ran_while_stopped", "stop_returned", "pool_serving", "shutdown_request", "socket_closed", "bad_task", "overflow", "cb_wrong_extra", "W.overflow", "worker_died"):
        init[name] = False
    # True: any attempt may fail (budget 15 > any window depth's number of attempts); int: that many failures at most
    init["start_failures_left"] = 15 if allow_start_failure is True else int(allow_start_failure or 0)
    for i in range(U.M):
        init["exec_count[{0}]".format(i)] = 0
        init["start_order[{0}]".format(i)] = -1
        init["finished[{0}]".format(i)] = False
    for j in range(U.R):
        init["cb_count[{0}]".format(j)] = 0
        for what in ("cb_data", "cb_exc", "cb_extra"):
            init["{0}[{1}]".format(what, j)] = NONE
    for w in range(U.W):
        init["W.state[{0}]".format(w)] = 0
    lo.thread_locals.add("exc")
    lo.local_init["exc"] = NONE
    lo.thread_locals.add("_cb")
    lo.local_init["_cb"] = NONE
    # ---- worker body: ThreadPool.__run -------------------------------------------------
    run_name = None
    for (cls, name) in lo.methods:
        if cls == "ThreadPool" and name.endswith("run"):
            run_name = name
    if run_name is None:
        raise Unsupported("worker loop method not found")
    fn = lo.methods[("ThreadPool", run_name)]
    lo.encoded_functions.add("ThreadPool." + run_name)

    def worker_exit(env):
        upd = {}
        me = env.g("T{0}.worker".format(env.tid))
        for w in range(U.W):
            upd["W.state[{0}]".format(w)] = ite(eq(me, w), 3, env.g("W.state[{0}]".format(w)))
        return [(True, upd, core.System.DONE)]

    exit_label = Label(system.new_node(None, "worker thread ends", worker_exit, filename, "thread-exit"))

    def worker_died(env):
        outs = worker_exit(env)
        outs[0][1]["worker_died"] = True
        return outs

    died_label = Label(system.new_node(None, "worker thread dies with an exception", worker_died, filename, "thread-exit"))
    wctx = Ctx(lo, "ThreadPool", const("Pool", 0), "run", (("top", died_label),), RetInfo(exit_label, lambda val: None))
    wctx.owner = "worker"
    wctx.file = filename
    lo.run_entry = Label()
    lo.run_entry.bind(sl.block(fn.body, wctx, exit_label))
    # ---- client programs -----------------------------------------------------------------
    lo.client_entries = []
    lo.client_sources = list(client_programs)
    for c, text in enumerate(client_programs):
        tree = ast.parse(text)
        lo.cur_file = "<client{0}>".format(c)

        def client_done(env):
            return [(True, {}, core.System.DONE)]

        done = Label(system.new_node(None, "client {0} finished".format(c), client_done, lo.cur_file, "thread-exit"))

        def client_died(env, c=c):
            return [(True, {"T{0}.uncaught".format(c): env.l("exc")}, core.System.DONE)]

        died = Label(system.new_node(None, "client {0} stopped by an exception".format(c), client_died, lo.cur_file, "thread-exit"))
        cctx = Ctx(lo, None, None, "client{0}".format(c), (("top", died),), RetInfo(done, lambda val: None))
        cctx.owner = c
        cctx.file = "<client{0}>".format(c)
        lo.cur_file = filename
        # client statements live in the generated module; their line numbers are those of `text`
        lo.in_client = c
        entry = sl.block(tree.body, cctx, done)
        lo.in_client = None
        lo.client_entries.append(entry)
    # ---- threads and their variables -----------------------------------------------------------
    for c in range(U.C):
        system.threads.append({"name": "client{0}".format(c), "kind": "client"})
    for w in range(U.W):
        system.threads.append({"name": "worker{0}".format(w), "kind": "worker"})
    for t, thr in enumerate(system.threads):
        init["T{0}.pc".format(t)] = lo.client_entries[t].pc if thr["kind"] == "client" else core.System.DONE
        init["T{0}.worker".format(t)] = (t - U.C) if thr["kind"] == "worker" else -1
        init["T{0}.uncaught".format(t)] = NONE
        for name in lo.thread_locals:
            owner = lo.local_owner.get(name)
            if owner is None or (owner == "worker" and thr["kind"] == "worker") or owner == t:
                init["T{0}.{1}".format(t, name)] = lo.local_init.get(name, 0)
    system.sticky_flags = ("overflow", "W.overflow", "P._queue.overflow", "bad_task", "worker_died")
    system.spawn_targets = {lo.run_entry.pc}
    system.meta["universe"] = U
    system.meta["lowering"] = lo
    return system, lo
