"""
Engine TS, driver: runs scenario windows in parallel, validates every solver
answer on the concrete interpreter and on the real code, classifies outcomes.

A property module provides `build(spec) -> dict(system, lo, universe, clients,
props, twin, prefix)` for picklable `spec`s; each (spec, regime) pair is one job.
"""
import multiprocessing
import os
import time
import traceback

from . import bmc, core, lower, replay
from ..common import REPO

THREADPOOL = os.path.join(REPO, "jsonrpclib", "threadpool.py")


NORMALISED = "<threadpool.py:one-statement-per-line>"


def read_source():
    """
    The current source of threadpool.py re-rendered from its own AST with every
    statement on one line (ast.unparse): same AST, hence the same code, but the
    tracer's line events then coincide with statements -- multi-line calls would
    otherwise give one event per argument line.  Model and replay both use this
    rendering; traces are reported with the original line numbers (linemap()).
    """
    import ast

    with open(THREADPOOL) as fp:
        tree = ast.parse(fp.read())
    return ast.unparse(tree) + "\n"


def linemap():
    """normalised line -> original line (statements correspond one to one)"""
    import ast

    with open(THREADPOOL) as fp:
        orig = ast.parse(fp.read())
    norm = ast.parse(read_source())
    mapping = {}
    for a, b in zip(ast.walk(norm), ast.walk(orig)):
        if isinstance(a, (ast.stmt, ast.ExceptHandler)) and hasattr(b, "lineno"):
            mapping.setdefault(a.lineno, b.lineno)
    return mapping


def _workers_gone_while_stopping(S):
    flags = [k for k in S if k.startswith("P.") and k.endswith("_done_event.flag")]
    states = [v for k, v in S.items() if k.startswith("W.state[")]
    return bool(flags) and S[flags[0]] and all(v != 2 for v in states) and any(v == 3 for v in states)


def _backlog(S):
    qlen = [v for k, v in S.items() if k.startswith("P.") and k.endswith("_queue.len")]
    return S["running"] >= 1 and bool(qlen) and qlen[0] >= 1


def _one_worker_gone_while_stopping(S):
    flags = [k for k in S if k.startswith("P.") and k.endswith("_done_event.flag")]
    states = [v for k, v in S.items() if k.startswith("W.state[")]
    return bool(flags) and S[flags[0]] and any(v == 3 for v in states) and any(v == 2 for v in states)


def _stop_markers_queued(S):
    flags = [k for k in S if k.startswith("P.") and k.endswith("_done_event.flag")]
    qlen = [v for k, v in S.items() if k.startswith("P.") and k.endswith("_queue.len")]
    alive = sum(1 for k, v in S.items() if k.startswith("W.state[") and v == 2)
    return bool(flags) and S[flags[0]] and alive >= 2 and bool(qlen) and qlen[0] >= alive


CONDITIONS = {"stop_markers_queued": _stop_markers_queued, "one_worker_gone_while_stopping": _one_worker_gone_while_stopping, "workers_gone_while_stopping": _workers_gone_while_stopping, "backlog": _backlog}


def run_prefix(system, state, prefix):
    """
    prefix: list of ("until", tid, {label|line|file}) / ("steps", tid, n) directives
    executed on the concrete interpreter.  Returns (state, steps)
    """
    steps = []
    for directive in prefix:
        kind, tid = directive[0], directive[1]
        if kind == "until":
            want = directive[2]
            for _ in range(400):
                pc = state["T{0}.pc".format(tid)]
                if pc < 0:
                    break
                node = system.nodes[pc]
                if all(getattr(node, key) == value for key, value in want.items()):
                    break
                res = system.step_concrete(state, tid, 0)
                if res is None:
                    break
                state, path = res
                steps.append((tid, 0, path))
            else:
                raise RuntimeError("prefix directive did not terminate: {0}".format(directive))
        elif kind == "rr":
            # round-robin over all threads until client `tid` is about to run the given statement
            want = directive[2]
            for _ in range(3000):
                pc = state["T{0}.pc".format(tid)]
                if pc < 0:
                    break
                node = system.nodes[pc]
                if all(getattr(node, key) == value for key, value in want.items()):
                    break
                progressed = False
                for t in range(len(system.threads)):
                    pc = state["T{0}.pc".format(tid)]
                    if pc >= 0 and all(getattr(system.nodes[pc], key) == value for key, value in want.items()):
                        break
                    res = system.step_concrete(state, t, 0)
                    if res is not None:
                        state, path = res
                        steps.append((t, 0, path))
                        progressed = True
                if not progressed:
                    break
            else:
                raise RuntimeError("prefix directive did not terminate: {0}".format(directive))
        elif kind == "rr_cond":
            # round-robin over the threads listed in directive[2] until a named state condition holds
            cond = CONDITIONS[directive[1]]
            who = directive[2]
            for _ in range(3000):
                if cond(state):
                    break
                progressed = False
                for t in who:
                    if cond(state):
                        break
                    res = system.step_concrete(state, t, 0)
                    if res is not None:
                        state, path = res
                        steps.append((t, 0, path))
                        progressed = True
                if not progressed:
                    break
            else:
                raise RuntimeError("prefix directive did not terminate: {0}".format(directive))
        elif kind == "rr_prog":
            goal = directive[2]
            key = "T{0}.client{0}.prog".format(tid)
            for _ in range(3000):
                if state[key] >= goal or state["T{0}.pc".format(tid)] < 0:
                    break
                progressed = False
                for t in (directive[3] if len(directive) > 3 else range(len(system.threads))):
                    if state[key] >= goal:
                        break
                    res = system.step_concrete(state, t, 0)
                    if res is not None:
                        state, path = res
                        steps.append((t, 0, path))
                        progressed = True
                if not progressed:
                    break
        elif kind == "steps":
            for _ in range(directive[2]):
                res = system.step_concrete(state, tid, 0)
                if res is None:
                    break
                state, path = res
                steps.append((tid, 0, path))
        else:
            raise ValueError(kind)
    return state, steps


def model_observations(system, state, universe, lo):
    U = universe
    obs = {"exec_count": [state["exec_count[{0}]".format(i)] for i in range(U.M)],
           "finished": [bool(state["finished[{0}]".format(i)]) for i in range(U.M)],
           "cb_count": [state["cb_count[{0}]".format(j)] for j in range(U.R)],
           "cb_last": [(U.describe(state["cb_data[{0}]".format(j)]), U.describe(state["cb_exc[{0}]".format(j)]),
                        U.describe(state["cb_extra[{0}]".format(j)])) for j in range(U.R)],
           "max_running": state["max_running"], "clients": {},
           "client_done": {c: state["T{0}.pc".format(c)] < 0 for c in range(U.C)}}
    for c in range(U.C):
        prefix = "T{0}.client{0}.".format(c)
        vals = {}
        for key, value in state.items():
            if key.startswith(prefix):
                name = key[len(prefix):]
                if name.startswith("_") or "[" in name:
                    continue
                vals[name] = value
        obs["clients"][c] = vals
    return obs


def conforms(model_obs, real_obs, universe):
    """
    Do the observable events of the real run equal those of the model run?
    Returns list of differences.
    """
    U = universe
    diffs = []
    if real_obs.get("mismatch"):
        diffs.append("schedule not followed: " + real_obs["mismatch"])
    if model_obs["exec_count"] != real_obs["exec_count"]:
        diffs.append("exec_count model {0} real {1}".format(model_obs["exec_count"], real_obs["exec_count"]))
    if model_obs["finished"] != real_obs["finished"]:
        diffs.append("finished model {0} real {1}".format(model_obs["finished"], real_obs["finished"]))
    for c, done in model_obs.get("client_done", {}).items():
        real_done = (real_obs.get("client_done") or {}).get(c)
        if real_done is not None and bool(real_done) != bool(done):
            diffs.append("client {0} finished: model {1} real {2}".format(c, done, real_done))

    def norm_real(v):
        if isinstance(v, bool):
            return int(v)
        if isinstance(v, str) and v.startswith("ValueError: exception-of-task-"):
            return "exc_of_task" + v.rsplit("-", 1)[1]
        return v

    for c, vals in model_obs.get("clients", {}).items():
        real_vals = (real_obs.get("clients") or {}).get(c, {})
        for name, mv in vals.items():
            if name not in real_vals:
                continue  # not assigned yet in the real run (model default 0) or an object
            rv = norm_real(real_vals[name])
            if isinstance(rv, (int, float)) and not isinstance(rv, bool):
                want = int(mv) if not isinstance(mv, bool) else int(mv)
                if int(rv) != want:
                    diffs.append("client {0} local {1}: model {2} real {3}".format(c, name, mv, rv))
            elif isinstance(rv, str) and (rv.startswith("result_of_task") or rv.startswith("exc_of_task") or rv.startswith("extra")):
                if U.describe(int(mv)).replace("result_of_task", "result_of_task") != rv:
                    diffs.append("client {0} local {1}: model {2} real {3}".format(c, name, U.describe(int(mv)), rv))
    for j in range(U.R):
        calls = [c for c in real_obs["cb_calls"] if c[0] == j]
        if len(calls) != model_obs["cb_count"][j]:
            diffs.append("callback {0}: model {1} calls, real {2}".format(j, model_obs["cb_count"][j], len(calls)))
        elif calls:
            last = calls[-1]

            def norm(v):
                if v is None or v == "None":
                    return None
                text = str(v)
                if text.startswith("ValueError: exception-of-task-"):
                    return "exc_of_task" + text.rsplit("-", 1)[1]
                return text

            want = tuple(norm(x) for x in model_obs["cb_last"][j])
            got = tuple(norm(x) for x in last[1:])
            if want != got:
                diffs.append("callback {0} arguments: model {1} real {2}".format(j, want, got))
    return diffs


def run_job(job):
    """
    job: (module name, spec, regime dict) -> picklable outcome dict
    """
    modname, spec, regime = job
    out = {"spec": spec, "regime": regime["name"], "discharged": [], "violations": [], "inconclusive": [], "twins": [],
           "queries": 0, "solver_s": 0.0, "transitions": 0, "states": 0, "functions": [], "validated": 0, "nodes": 0}
    t0 = time.time()
    try:
        import importlib

        mod = importlib.import_module(modname)
        built = mod.build(spec)
        system, lo, U = built["system"], built["lo"], built["universe"]
        out["functions"] = sorted(lo.encoded_functions)
        out["nodes"] = len(system.nodes)
        state0, pre_steps = run_prefix(system, dict(system.init), built.get("prefix", []))
        window = bmc.Window(spec["name"], system, state0, built["props"], twin=built.get("twin"))
        res = bmc.Result()
        bmc.check_window(window, regime["depth"], regime.get("preempt"), regime.get("timeout", 300), res, regime["name"])
        out["queries"], out["solver_s"], out["transitions"], out["states"] = res.queries, res.solver_s, res.transitions, res.states
        out["max_query_s"], out["query_timeout_s"] = res.max_query_s, regime.get("timeout", 300)
        out["discharged"] = [(w, p, r) for (w, p, r) in res.discharged]
        out["inconclusive"] = list(res.inconclusive)
        clients = built["clients"]
        pool_args = {} if built.get("uses_pool", True) else None
        for v in res.violations:
            entry = {"prop": v["prop"], "finding": v["finding"], "schedule": v["schedule"]}
            try:
                states, steps = bmc.trim_schedule(system, state0, v["schedule"])
                at = bmc.violated_concretely(v["_prop"], states, system)
                entry["model_confirms"] = at is not None
                if at is not None:
                    steps = steps[:at]
                    final = states[at]
                else:
                    final = states[-1]
                lm = linemap()

                def show(n):
                    if isinstance(n.line, tuple):
                        return "/".join(n.line)
                    if n.line is not None and n.file == NORMALISED:
                        return "threadpool.py:{0}".format(lm.get(n.line, n.line))
                    return n.line

                entry["trace"] = [(tid, [(show(n), n.label) for n in path]) for tid, ch, path in pre_steps + steps]
                entry["model_obs"] = model_observations(system, final, U, lo)
                for _attempt in range(3):
                    real = replay.replay(read_source(), NORMALISED, U, clients, pre_steps + steps, pool_args=pool_args,
                                             start_failures=system.init.get("start_failures_left"))
                    entry["real"] = real
                    entry["diffs"] = conforms(entry["model_obs"], real, U)
                    if not entry["diffs"]:
                        break
                if built.get("real_violation"):
                    entry["real_violates"] = bool(built["real_violation"](v["prop"], real, final))
                else:
                    entry["real_violates"] = not entry["diffs"]
            except Exception as ex:  # noqa
                entry["error"] = "{0}: {1}".format(type(ex).__name__, ex)
                entry["traceback"] = traceback.format_exc()[-1500:]
            out["violations"].append(entry)
        for name, rname, schedule in res.twins:
            tw = {"window": name, "steps": None, "diffs": None}
            try:
                states, steps = bmc.trim_schedule(system, state0, schedule)
                tw["steps"] = len(steps)
                if regime.get("replay_twin", True):
                    # (a loaded machine can make a 50 ms pool time-out or a guard interval
                    # misfire: a non-conforming replay is repeated before it counts)
                    for _attempt in range(3):
                        real = replay.replay(read_source(), NORMALISED, U, clients, pre_steps + steps, pool_args=pool_args,
                                             start_failures=system.init.get("start_failures_left"))
                        tw["diffs"] = conforms(model_observations(system, states[-1], U, lo), real, U)
                        if not tw["diffs"]:
                            break
                    tw["lines"] = real.get("lines_executed")
                    if not tw["diffs"]:
                        out["validated"] += 1
                tw["sample"] = [(tid, [n.label for n in path][:3]) for tid, ch, path in steps[:8]]
            except Exception as ex:  # noqa
                tw["diffs"] = ["{0}: {1}".format(type(ex).__name__, ex)]
            out["twins"].append(tw)
    except lower.Unsupported as ex:
        out["inconclusive"].append("window={0} reason=unsupported construct: {1}".format(spec.get("name"), ex))
    except Exception as ex:  # noqa
        out["inconclusive"].append("window={0} reason=harness error {1}: {2} {3}".format(
            spec.get("name"), type(ex).__name__, ex, traceback.format_exc()[-600:]))
    out["wall_s"] = time.time() - t0
    return out


def run_all(modname, jobs, report, processes=None):
    """
    jobs: list of (spec, regime).  Fills `report` (engine.common.Report).
    """
    processes = processes or min(16, os.cpu_count() or 4)
    payload = [(modname, spec, regime) for spec, regime in jobs]
    ctx = multiprocessing.get_context("fork")
    with ctx.Pool(processes) as pool:
        outs = pool.map(run_job, payload, chunksize=1)
    seen_findings = set()
    slow = sorted(((round(o["solver_s"], 1), round(o.get("wall_s", 0), 1), o["spec"].get("name"), o["regime"]) for o in outs), reverse=True)[:6]
    report.extra.setdefault("slowest_windows_solver_wall_s", []).extend(slow)
    slowq = sorted(((round(o.get("max_query_s", 0), 1), o.get("query_timeout_s"), o["spec"].get("name"), o["regime"]) for o in outs), reverse=True)[:6]
    report.extra.setdefault("slowest_single_queries_s_vs_timeout_s", []).extend(slowq)
    for out in outs:
        name = "{0}/{1}".format(out["spec"].get("name"), out["regime"])
        report.count_query("z3-bmc", out["queries"])
        report.solver_cpu_s += out["solver_s"]
        report.transitions += out["transitions"]
        report.states += out["states"]
        report.functions |= set("jsonrpclib/threadpool.py:" + f for f in out["functions"])
        report.traces_validated += out["validated"]
        ndis = len(out["discharged"])
        nviol = len(out["violations"])
        report.obligations += ndis + nviol
        report.discharged += ndis
        for w, p, r in out["discharged"]:
            report.shapes.add("{0}|{1}|{2}".format(w, p, r))
        for text in out["inconclusive"]:
            report.inconclusive.append(text)
        for tw in out["twins"]:
            report.twins += 1
            if tw["diffs"] == [] or tw["diffs"] is None:
                report.twins_refuted += 1
                report.add_sample({"window": name, "completion_witness_steps": tw["steps"], "real_lines_replayed": tw.get("lines"),
                                   "first_steps": tw.get("sample")})
            else:
                report.inconclusive.append("window={0} reason=conformance: completion witness not followed by the real code: {1}".format(
                    name, "; ".join(tw["diffs"])[:300]))
        for v in out["violations"]:
            label = "{0}:{1}".format(name, v["prop"])
            if v.get("error"):
                report.inconclusive.append("window={0} prop={1} reason=replay error {2}".format(name, v["prop"], v["error"]))
                continue
            if not v.get("model_confirms"):
                report.inconclusive.append("window={0} prop={1} reason=solver schedule does not violate on the concrete interpreter".format(name, v["prop"]))
                continue
            if not v.get("real_violates"):
                report.inconclusive.append("window={0} prop={1} reason=counterexample does not reproduce on the real code: {2}".format(
                    name, v["prop"], "; ".join(v.get("diffs") or [])[:300]))
                continue
            finding = v.get("finding")
            entry = report.known_entry(finding) if finding else None
            payload = {"property": report.prop, "window": out["spec"], "regime": out["regime"], "violated": v["prop"],
                       "schedule_trace": v.get("trace"), "real_observations": v.get("real"), "model_observations": v.get("model_obs")}
            if entry is not None:
                if finding not in seen_findings:
                    seen_findings.add(finding)
                    report.known.append("{0}: {1} [witness window {2}, {3} model steps, replayed on the real code]".format(
                        finding, entry.get("text", ""), name, len(v.get("trace") or [])))
                continue
            path = report.write_replay(label, payload)
            report.violation("window={0} property clause '{1}' violated; schedule replayed on the real threadpool.py".format(name, v["prop"]), path)
    return outs
