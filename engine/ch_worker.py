"""
CrossHair worker process.

Protocol: one JSON object per line on stdin, one JSON object per line on stdout.
Request:  {"id": n, "mode": "analyze"|"native", "module": path, "fn": name,
           "timeout": seconds, "args": "<python expr list of kwargs>"}
Reply:    {"id": n, "state": ..., "message": ..., "cpu_s": ...}

"analyze" runs CrossHair (symbolic execution, z3 underneath) on one contract of
one generated obligation function; "native" calls the same function with
concrete arguments, without CrossHair (counterexample replay).
"""
import importlib.util
import json
import os
import sys
import time
import traceback

sys.path.insert(0, "/verif")
os.environ.setdefault("PYTHONHASHSEED", "0")

_real_stdout = os.fdopen(os.dup(1), "w")
# anything the analysed code prints must not corrupt the protocol
os.dup2(2, 1)
sys.stdout = sys.stderr

_modules = {}


def _load(path):
    mod = _modules.get(path)
    if mod is None:
        name = "verif_build_" + os.path.basename(path)[:-3]
        spec = importlib.util.spec_from_file_location(name, path)
        mod = importlib.util.module_from_spec(spec)
        sys.modules[name] = mod
        spec.loader.exec_module(mod)
        _modules[path] = mod
    return mod


def _analyze(req):
    from crosshair.core_and_libs import analyze_function, run_checkables
    from crosshair.options import AnalysisOptionSet
    from crosshair.statespace import MessageType

    fn = getattr(_load(req["module"]), req["fn"])
    timeout = float(req.get("timeout", 30))
    opts = AnalysisOptionSet(
        per_condition_timeout=timeout,
        per_path_timeout=float(req.get("path_timeout", max(timeout ** 0.5, 5.0))),
        report_all=True,
    )
    t0 = time.process_time()
    checkables = analyze_function(fn, opts)
    if not checkables:
        return {"state": "NO_CONDITIONS", "message": "no checkable conditions"}
    messages = run_checkables(checkables)
    cpu = time.process_time() - t0
    # one postcondition per obligation function => one message
    worst = max(messages, key=lambda m: m.state)
    return {
        "state": MessageType(worst.state).name,
        "message": worst.message,
        "cpu_s": cpu,
        "n_messages": len(messages),
    }


def _native(req):
    mod = _load(req["module"])
    fn = getattr(mod, req["fn"])
    captured = {}

    def _collect(*a, **k):
        captured["a"] = a
        captured["k"] = k

    env = dict(mod.__dict__)
    env[req["fn"]] = _collect
    env["nan"] = float("nan")
    env["inf"] = float("inf")
    eval(compile(req["call"], "<counterexample>", "eval"), env)
    t0 = time.process_time()
    try:
        value = fn(*captured["a"], **captured["k"])
        out = {"state": "RETURNED", "value": repr(value), "code": value if isinstance(value, int) else None}
    except Exception as ex:  # noqa
        out = {
            "state": "RAISED",
            "value": "{0}: {1}".format(type(ex).__name__, ex),
            "code": None,
            "traceback": traceback.format_exc()[-1500:],
        }
    out["cpu_s"] = time.process_time() - t0
    return out


def main():
    for line in sys.stdin:
        line = line.strip()
        if not line:
            continue
        req = json.loads(line)
        try:
            if req["mode"] == "analyze":
                out = _analyze(req)
            else:
                out = _native(req)
        except BaseException as ex:  # noqa
            out = {
                "state": "WORKER_ERROR",
                "message": "{0}: {1}".format(type(ex).__name__, ex),
                "traceback": traceback.format_exc()[-3000:],
            }
        out["id"] = req["id"]
        _real_stdout.write(json.dumps(out) + "\n")
        _real_stdout.flush()


if __name__ == "__main__":
    main()
