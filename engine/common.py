"""
Shared plumbing: report accumulation, evidence files, known findings, exit codes.
"""
import json
import os
import re
import time

VERIF = "/verif"
# VERIF_REPO lets the seeded-change tooling point a run at a scratch checkout;
# registered checks always use /repo itself
REPO = os.environ.get("VERIF_REPO") or "/repo"
EXIT_OK = 0
EXIT_VIOLATION = 1
EXIT_INCONCLUSIVE = 3

KNOWN_FINDINGS_FILE = os.path.join(VERIF, "known_findings.json")


def load_known_findings():
    try:
        with open(KNOWN_FINDINGS_FILE) as fp:
            data = json.load(fp)
    except FileNotFoundError:
        return {"findings": [], "fixed": []}
    data.setdefault("findings", [])
    data.setdefault("fixed", [])
    return data


class Report(object):
    """
    Accumulates what one check run covered and decided.
    """

    def __init__(self, prop, tier, seed, level="other"):
        self.prop = prop
        self.tier = tier
        self.seed = seed
        self.level = level
        self.t0 = time.time()
        self.obligations = 0
        self.discharged = 0
        self.twins = 0
        self.twins_refuted = 0
        self.violations = []  # (text, replay path)
        self.known = []  # text
        self.inconclusive = []  # text
        self.samples = []
        self.shapes = set()
        self.functions = set()
        self.assumptions = []
        self.bounds = {}
        self.outside = []
        self.solver_cpu_s = 0.0
        self.queries = {}  # engine -> count
        self.extra = {}
        self.explanation = ""
        self.trusted_base = []
        self.states = 0
        self.transitions = 0
        self.traces_validated = 0
        self._known = load_known_findings()
        import shutil

        self.replay_dir = os.path.join(VERIF, "replays", prop + (os.environ.get("VERIF_NO_EVIDENCE") or ""))
        shutil.rmtree(self.replay_dir, ignore_errors=True)

    # ------------------------------------------------------------------
    def known_entry(self, finding_id):
        for entry in self._known["findings"]:
            if entry.get("property") == self.prop and entry.get("id") == finding_id:
                return entry
        return None

    def count_query(self, engine, n=1):
        self.queries[engine] = self.queries.get(engine, 0) + n

    def add_sample(self, sample, limit=12):
        if len(self.samples) < limit:
            self.samples.append(sample)

    def violation(self, text, replay):
        self.violations.append((text, replay))

    def write_replay(self, name, payload):
        d = self.replay_dir
        os.makedirs(d, exist_ok=True)
        safe = re.sub(r"[^A-Za-z0-9_.-]", "_", name)[:120]
        path = os.path.join(d, safe + ".json")
        with open(path, "w") as fp:
            json.dump(payload, fp, indent=1, default=repr)
        return path

    # ------------------------------------------------------------------
    def finish(self):
        wall = time.time() - self.t0
        coverage = {
            "explanation": self.explanation,
            "obligations": self.obligations,
            "discharged": self.discharged,
            "reachability_twins": self.twins,
            "reachability_twins_refuted": self.twins_refuted,
            "evaluations": self.obligations + self.twins,
            "distinct_nontrivial": len(self.shapes),
            "rule": (
                "one solver obligation per enumerated shape with every leaf symbolic; "
                "distinct_nontrivial counts distinct shapes whose obligation was "
                "discharged by the solver (twins and finding obligations not counted)"
            ),
            "samples": self.samples or [{"note": "no sample recorded"}],
            "functions_encoded": sorted(self.functions),
            "bounds": self.bounds,
            "outside_claim": self.outside,
            "queries": self.queries,
            "solver_cpu_s": round(self.solver_cpu_s, 2),
            "checker_cmd": "./check {0} --tier {1}".format(self.prop, self.tier),
            "trusted_base": self.trusted_base,
            "inconclusive": self.inconclusive[:50],
            "known_findings_reported": self.known,
            "exhaustive": False,
        }
        if self.level == "model_checking":
            coverage["states"] = max(self.states, 1)
            coverage["transitions"] = max(self.transitions, 1)
            coverage["traces_validated_against_impl"] = self.traces_validated
            coverage["states_note"] = (
                "states = unrolled scheduling steps summed over windows (each symbolic state stands for every "
                "state reachable by some interleaving of that many steps); transitions = guarded macro-step "
                "transitions instantiated in the z3 encodings; traces_validated_against_impl = solver witness "
                "runs (completion twins) replayed statement by statement on the real classes with identical "
                "observable events"
            )
        coverage.update(self.extra)
        evidence = {
            "property_id": self.prop,
            "tier": self.tier,
            "seed": self.seed,
            "level": self.level,
            "coverage": coverage,
            "assumptions": self.assumptions,
            "wall_s": round(wall, 2),
            "violations": len(self.violations),
        }
        os.makedirs(os.path.join(VERIF, "evidence"), exist_ok=True)
        path = os.path.join(VERIF, "evidence", self.prop + ".json")
        if os.environ.get("VERIF_NO_EVIDENCE"):
            # runs against seeded changes must not overwrite committed evidence
            path = os.path.join(VERIF, "build", self.prop + os.environ["VERIF_NO_EVIDENCE"] + ".seedrun-evidence.json")
            os.makedirs(os.path.dirname(path), exist_ok=True)
        with open(path + ".tmp", "w") as fp:
            json.dump(evidence, fp, indent=1, default=repr)
        os.replace(path + ".tmp", path)

        for text in self.known:
            print("KNOWN-FINDING: property={0} {1}".format(self.prop, text))
        for text in self.inconclusive[:15]:
            print("INCONCLUSIVE property={0} {1}".format(self.prop, text))
        for text, replay in self.violations:
            print("VIOLATION property={0} replay={1}".format(self.prop, replay))
            print("  " + text)
        print(
            "{0} tier={1}: obligations={2} discharged={3} twins={4}/{5} "
            "violations={6} known={7} inconclusive={8} solver_cpu={9:.1f}s wall={10:.1f}s".format(
                self.prop,
                self.tier,
                self.obligations,
                self.discharged,
                self.twins_refuted,
                self.twins,
                len(self.violations),
                len(self.known),
                len(self.inconclusive),
                self.solver_cpu_s,
                wall,
            )
        )
        if self.violations:
            return EXIT_VIOLATION
        if self.inconclusive:
            return EXIT_INCONCLUSIVE
        return EXIT_OK
