"""
Engine SMT-S: a small translator from the straight-line string code that guards
a security-relevant decision into z3 (strings + regular expressions).

It walks the AST of the *current* source of a function from its entry to the
first "sink" (an import, a class-table lookup, a constructor call), collecting
the path condition over the one string the decision depends on.  Supported,
exactly: `not s`, `a != b` / `a == b` between the string and its cleaned form,
`re.sub(P, "", s)` with P a module-level constant holding a single character
class (parsed by Python's own re parser), `s.split(".")`, `len`, `if/elif/else`,
`raise`, plain assignments.  Anything else on the way to the sink makes the
result inconclusive (fail closed).
"""
import ast
import re
import time

import z3

try:
    import re._parser as sre_parse
    import re._constants as sre_constants
except ImportError:  # pragma: no cover
    import sre_parse
    import sre_constants


class Unsupported(Exception):
    pass


def _char_re(code):
    return z3.Re(z3.StringVal(chr(code)))


def charclass_to_z3(pattern):
    """
    Python regex consisting of ONE character class -> z3 regex matching one
    character of that class.  Returns (z3 regex, python predicate on a code point)
    """
    parsed = list(sre_parse.parse(pattern))
    if len(parsed) != 1:
        raise Unsupported("pattern is not a single character class: %r" % pattern)
    op, arg = parsed[0]
    any_char = z3.AllChar(z3.ReSort(z3.StringSort()))
    if op == sre_constants.LITERAL:
        return _char_re(arg), (lambda c, a=arg: c == a), [("lit", arg)]
    if op == sre_constants.NOT_LITERAL:
        return z3.Intersect(any_char, z3.Complement(_char_re(arg))), (lambda c, a=arg: c != a), [("neg",), ("lit", arg)]
    if op != sre_constants.IN:
        raise Unsupported("pattern is not a character class: %r" % pattern)
    negate = False
    parts = []
    items = []
    for iop, iarg in arg:
        if iop == sre_constants.NEGATE:
            negate = True
        elif iop == sre_constants.LITERAL:
            parts.append(_char_re(iarg))
            items.append(("lit", iarg))
        elif iop == sre_constants.RANGE:
            lo, hi = iarg
            parts.append(z3.Range(z3.StringVal(chr(lo)), z3.StringVal(chr(hi))))
            items.append(("range", lo, hi))
        else:
            # categories (\w, \d, ...) have Unicode-wide meaning: not translated
            raise Unsupported("character class item %s in %r" % (iop, pattern))
    union = parts[0] if len(parts) == 1 else z3.Union(*parts)

    def member(c):
        for item in items:
            if item[0] == "lit" and c == item[1]:
                return True
            if item[0] == "range" and item[1] <= c <= item[2]:
                return True
        return False

    if negate:
        return z3.Intersect(any_char, z3.Complement(union)), (lambda c: not member(c)), [("neg",)] + items
    return union, member, items


class NameGuard(object):
    """
    Result of translating the class-name validation of jsonclass.load.
    """

    def __init__(self):
        self.pattern_name = None
        self.pattern = None
        self.conditions = []  # list of (kind, polarity): the path condition to the sink
        self.sink = None
        self.statements = 0


def translate_load(source):
    """
    Translates jsonclass.load: returns a NameGuard whose `conditions` are the
    conjuncts that hold when the first sink is reached, in terms of the raw name
    string `s`:  ("empty", False) -> s != "" ; ("has_match", False) -> s has no
    character matching the pattern.
    """
    tree = ast.parse(source)
    consts = {}
    func = None
    for node in tree.body:
        if isinstance(node, ast.Assign) and len(node.targets) == 1 and isinstance(node.targets[0], ast.Name):
            if isinstance(node.value, ast.Constant) and isinstance(node.value.value, str):
                consts[node.targets[0].id] = node.value.value
        if isinstance(node, ast.FunctionDef) and node.name == "load":
            func = node
    if func is None:
        raise Unsupported("no function load()")
    guard = NameGuard()
    env = {}  # variable -> symbolic description

    def describe(expr):
        # obj["__jsonclass__"][0]
        if isinstance(expr, ast.Subscript):
            inner = expr.value
            if (
                isinstance(inner, ast.Subscript)
                and isinstance(inner.value, ast.Name)
                and inner.value.id == "obj"
                and isinstance(inner.slice, ast.Constant)
                and inner.slice.value == "__jsonclass__"
                and isinstance(expr.slice, ast.Constant)
            ):
                return ("name",) if expr.slice.value == 0 else ("params",)
            if isinstance(inner, ast.Name) and env.get(inner.id, (None,))[0] == "parts":
                return ("part",)
        if isinstance(expr, ast.Name):
            if expr.id in env:
                return env[expr.id]
            return ("opaque", expr.id)
        if isinstance(expr, ast.Call):
            fn = expr.func
            # re.sub(PATTERN, "", x)
            if isinstance(fn, ast.Attribute) and isinstance(fn.value, ast.Name) and fn.value.id == "re" and fn.attr == "sub":
                pat, repl, subj = expr.args[:3]
                if not (isinstance(repl, ast.Constant) and repl.value == ""):
                    raise Unsupported("re.sub replacement is not the empty string")
                if isinstance(pat, ast.Name) and pat.id in consts:
                    guard.pattern_name, guard.pattern = pat.id, consts[pat.id]
                elif isinstance(pat, ast.Constant) and isinstance(pat.value, str):
                    guard.pattern_name, guard.pattern = "<literal>", pat.value
                else:
                    raise Unsupported("re.sub pattern is not a constant")
                if describe(subj) != ("name",):
                    raise Unsupported("re.sub subject is not the class name")
                if len(expr.args) > 3 or expr.keywords:
                    raise Unsupported("re.sub with count/flags")
                return ("clean",)
            if isinstance(fn, ast.Attribute) and fn.attr == "split" and describe(fn.value) in (("clean",), ("name",)):
                return ("parts",)
            if isinstance(fn, ast.Attribute) and fn.attr in ("pop", "join", "format"):
                return ("opaque", "str-op")
            if isinstance(fn, ast.Name) and fn.id == "len":
                return ("opaque", "len")
            if isinstance(fn, ast.Name) and fn.id == "__import__":
                return ("sink", "__import__")
            if isinstance(fn, ast.Name) and fn.id in ("isinstance", "getattr", "TranslationError"):
                return ("opaque", fn.id)
            raise Unsupported("call %s" % ast.dump(fn)[:80])
        if isinstance(expr, (ast.Constant, ast.JoinedStr)):
            return ("opaque", "const")
        raise Unsupported("expression %s" % ast.dump(expr)[:80])

    def condition(test):
        """
        -> (kind, polarity) with kind in {"empty", "has_match", "opaque"}
        """
        if isinstance(test, ast.UnaryOp) and isinstance(test.op, ast.Not):
            d = describe(test.operand)
            if d == ("name",):
                return ("empty", True)
            if d == ("clean",):
                # cleaned form empty: not expressible exactly; treat as unsupported
                raise Unsupported("`not cleaned_name` test")
            return ("opaque", True)
        if isinstance(test, ast.Compare) and len(test.ops) == 1:
            left, right = describe(test.left), describe(test.comparators[0])
            pair = {left, right}
            if pair == {("name",), ("clean",)}:
                if isinstance(test.ops[0], ast.NotEq):
                    return ("has_match", True)
                if isinstance(test.ops[0], ast.Eq):
                    return ("has_match", False)
            if ("name",) in pair or ("clean",) in pair:
                raise Unsupported("comparison on the class name: %s" % ast.dump(test)[:80])
            return ("opaque", True)
        if isinstance(test, ast.BoolOp) or isinstance(test, ast.Call) or isinstance(test, ast.Name):
            # must not mention the name
            for sub in ast.walk(test):
                if isinstance(sub, ast.Name) and env.get(sub.id, (None,))[0] in ("name", "clean"):
                    raise Unsupported("compound test on the class name")
            return ("opaque", True)
        raise Unsupported("test %s" % ast.dump(test)[:80])

    def always_raises(body):
        return bool(body) and isinstance(body[-1], ast.Raise)

    class Found(Exception):
        pass

    def is_sink(node):
        for sub in ast.walk(node):
            if isinstance(sub, ast.Call) and isinstance(sub.func, ast.Name) and sub.func.id == "__import__":
                return "__import__"
            if isinstance(sub, ast.Subscript) and isinstance(sub.value, ast.Name) and sub.value.id == "classes":
                return "classes[...]"
            if isinstance(sub, ast.Call) and isinstance(sub.func, ast.Name) and sub.func.id == "json_class":
                return "constructor"
        return None

    def walk(stmts, started):
        for stmt in stmts:
            guard.statements += 1
            if not started[0]:
                # skip the type dispatch until the descriptor is read
                if isinstance(stmt, ast.Assign) and any(
                    isinstance(s, ast.Constant) and s.value == "__jsonclass__" for s in ast.walk(stmt.value)
                ):
                    started[0] = True
                elif isinstance(stmt, ast.If):
                    # the leading if/elif chain returns for non-descriptor inputs
                    if is_sink(stmt):
                        raise Unsupported("sink inside the type dispatch")
                    continue
                else:
                    continue
            if isinstance(stmt, ast.Expr) and isinstance(stmt.value, ast.Constant):
                continue
            if isinstance(stmt, ast.Assign):
                sink = is_sink(stmt.value)
                if sink:
                    guard.sink = sink
                    raise Found()
                if len(stmt.targets) != 1 or not isinstance(stmt.targets[0], ast.Name):
                    raise Unsupported("assignment target")
                env[stmt.targets[0].id] = describe(stmt.value)
                continue
            if isinstance(stmt, ast.If):
                cond = condition(stmt.test)
                if always_raises(stmt.body) and not stmt.orelse:
                    if is_sink(ast.Module(body=stmt.body, type_ignores=[])):
                        raise Unsupported("sink in a raising branch")
                    if cond[0] != "opaque":
                        guard.conditions.append((cond[0], not cond[1]))
                    continue
                # a branch that does not raise: the first sink in either arm
                # is reached under the conditions collected so far
                if cond[0] != "opaque":
                    raise Unsupported("non-raising branch on the class name")
                sink = is_sink(stmt)
                if sink:
                    guard.sink = sink
                    raise Found()
                continue
            if isinstance(stmt, ast.Try):
                sink = is_sink(stmt)
                if sink:
                    guard.sink = sink
                    raise Found()
                continue
            sink = is_sink(stmt)
            if sink:
                guard.sink = sink
                raise Found()
            if isinstance(stmt, (ast.Raise, ast.Return)):
                raise Unsupported("unconditional exit before any sink")
            raise Unsupported("statement %s" % type(stmt).__name__)

    try:
        walk(func.body, [False])
    except Found:
        return guard
    raise Unsupported("no sink found")


# ---------------------------------------------------------------------------
# queries


def path_condition(guard, s):
    """
    z3 formula over the string s: the guard's path condition
    """
    cls, member, items = charclass_to_z3(guard.pattern) if guard.pattern is not None else (None, None, None)
    full = z3.Full(z3.ReSort(z3.StringSort()))
    conj = []
    for kind, polarity in guard.conditions:
        if kind == "empty":
            f = s == z3.StringVal("")
        elif kind == "has_match":
            if cls is None:
                raise Unsupported("has_match without a pattern")
            f = z3.InRe(s, z3.Concat(full, cls, full))
        else:
            raise Unsupported(kind)
        conj.append(f if polarity else z3.Not(f))
    return z3.And(*conj) if conj else z3.BoolVal(True)


def valid_alphabet_re():
    """
    The oracle alphabet, from the property text: ASCII letters, digits, '_' and '.'
    """
    one = z3.Union(
        z3.Range(z3.StringVal("a"), z3.StringVal("z")),
        z3.Range(z3.StringVal("A"), z3.StringVal("Z")),
        z3.Range(z3.StringVal("0"), z3.StringVal("9")),
        z3.Re(z3.StringVal("_")),
        z3.Re(z3.StringVal(".")),
    )
    return z3.Star(one)


def valid_char(c):
    return (97 <= c <= 122) or (65 <= c <= 90) or (48 <= c <= 57) or c in (95, 46)


def solve(formula, timeout_ms=60000):
    solver = z3.Solver()
    solver.set("timeout", timeout_ms)
    solver.add(formula)
    t0 = time.process_time()
    res = solver.check()
    cpu = time.process_time() - t0
    model = solver.model() if str(res) == "sat" else None
    return str(res), model, cpu


def bounded_exact(guard, max_len):
    """
    The same claim without the lemma about re.sub: for every length n <= max_len
    the name is n code points c_i; re.sub is expanded per character
    (cleaned != name  <=>  some c_i matches the pattern).  Returns list of
    (n, result, cpu).
    """
    _, member, items = charclass_to_z3(guard.pattern)

    def match(c):
        neg = bool(items) and items[0] == ("neg",)
        terms = []
        for item in items:
            if item[0] == "lit":
                terms.append(c == item[1])
            elif item[0] == "range":
                terms.append(z3.And(c >= item[1], c <= item[2]))
        inside = z3.Or(*terms) if terms else z3.BoolVal(False)
        return z3.Not(inside) if neg else inside

    def valid(c):
        return z3.Or(
            z3.And(c >= 97, c <= 122), z3.And(c >= 65, c <= 90), z3.And(c >= 48, c <= 57), c == 95, c == 46
        )

    out = []
    for n in range(0, max_len + 1):
        cs = [z3.Int("c%d" % i) for i in range(n)]
        dom = [z3.And(c >= 0, c <= 0x10FFFF) for c in cs]
        conj = []
        for kind, polarity in guard.conditions:
            if kind == "empty":
                f = z3.BoolVal(n == 0)
            else:
                f = z3.Or(*[match(c) for c in cs]) if cs else z3.BoolVal(False)
            conj.append(f if polarity else z3.Not(f))
        bad = z3.Or(z3.BoolVal(n == 0), *[z3.Not(valid(c)) for c in cs])
        res, model, cpu = solve(z3.And(*(dom + conj + [bad])))
        out.append((n, res, cpu, model))
    return out
