"""
Engine CH: CrossHair obligations over the real functions of /repo.

A harness module (harness/cNN.py) describes obligations as `Ob` records: a typed
parameter list (the symbolic leaves), preconditions, and a one-line call into a
harness function that builds the concrete shape around the leaves, calls the real
code and returns a code: >= 100 passes (value says which oracle branch), < 100
says which clause failed.  This module renders each obligation into a generated
Python file under /verif/build/<prop>/, has CrossHair decide
`post: _ >= 100` (and a reachability twin `post: _ != <code>` which must be
refuted), replays every counterexample natively and classifies the outcome.
"""
import inspect
import json
import os
import queue
import random
import re
import subprocess
import sys
import threading
import time

from .common import VERIF, REPO

PY = os.path.join(VERIF, ".venv", "bin", "python")
NWORKERS = int(os.environ.get("VERIF_JOBS", "0")) or min(16, os.cpu_count() or 4)


class Ob(object):
    """
    One obligation.

    :param name: unique name (also the generated function's name)
    :param params: "a: int, s: str" -- the symbolic leaves
    :param call: expression evaluated to the result code
    :param pre: list of precondition expressions
    :param shape: JSON-able description of the concrete shape (for evidence)
    :param twin_codes: pass codes that must each be shown reachable
    :param timeout: CrossHair per-condition CPU budget (s)
    :param kind: "main" | "finding"
    :param finding: id in known_findings.json (kind == "finding")
    :param post: override of the postcondition (default `_ >= 100`)
    """

    def __init__(
        self,
        name,
        params,
        call,
        pre=(),
        shape=None,
        twin_codes=(100,),
        timeout=30,
        kind="main",
        finding=None,
        post="_ >= 100",
        ret="int",
    ):
        self.name = re.sub(r"[^A-Za-z0-9_]", "_", name)
        self.params = params
        self.call = call
        self.pre = list(pre)
        self.shape = shape if shape is not None else name
        self.twin_codes = tuple(twin_codes)
        self.timeout = timeout
        self.kind = kind
        self.finding = finding
        self.post = post
        self.ret = ret

    def render(self, fn_name, post, extra_pre=()):
        doc = "".join("    pre: {0}\n".format(p) for p in list(self.pre) + list(extra_pre))
        doc += "    post: {0}\n".format(post)
        return 'def {0}({1}) -> {2}:\n    """\n{3}    """\n    return {4}\n'.format(
            fn_name, self.params, self.ret, doc, self.call
        )


# ----------------------------------------------------------------------------


class _Worker(object):
    def __init__(self):
        self.proc = None
        self.spawn()

    def spawn(self):
        env = dict(os.environ)
        env["PYTHONHASHSEED"] = "0"
        env["PYTHONPATH"] = VERIF if REPO == "/repo" else VERIF + os.pathsep + REPO
        self.proc = subprocess.Popen(
            [PY, "-m", "engine.ch_worker"],
            stdin=subprocess.PIPE,
            stdout=subprocess.PIPE,
            stderr=subprocess.DEVNULL,
            cwd=VERIF,
            env=env,
            text=True,
            bufsize=1,
        )

    def kill(self):
        try:
            self.proc.kill()
            self.proc.wait(5)
        except Exception:  # noqa
            pass

    def request(self, req, wall_limit):
        """
        Sends one request, waits for the reply at most wall_limit seconds.
        """
        if self.proc.poll() is not None:
            self.spawn()
        result = {}

        def reader():
            try:
                line = self.proc.stdout.readline()
                if line:
                    result.update(json.loads(line))
            except Exception as ex:  # noqa
                result["state"] = "WORKER_ERROR"
                result["message"] = "reader: {0}".format(ex)

        try:
            self.proc.stdin.write(json.dumps(req) + "\n")
            self.proc.stdin.flush()
        except Exception as ex:  # noqa
            self.kill()
            self.spawn()
            return {"state": "WORKER_ERROR", "message": "write: {0}".format(ex)}
        thr = threading.Thread(target=reader, daemon=True)
        thr.start()
        thr.join(wall_limit)
        if thr.is_alive() or not result:
            self.kill()
            self.spawn()
            if not result:
                return {"state": "WALL_TIMEOUT", "message": "no answer in {0}s".format(wall_limit)}
        return result


_CALL_RE = re.compile(r"when calling (\w+\(.*\))(?: \(which (?:returns|raises).*\))?\s*$", re.S)


def parse_counterexample(message):
    """
    Extracts the `fn(args)` call text from a CrossHair message.
    """
    m = _CALL_RE.search(message.strip())
    if not m:
        return None
    text = m.group(1)
    # strip a trailing "(which returns ...)" that the greedy match may include
    idx = text.find(") (which ")
    if idx >= 0:
        text = text[: idx + 1]
    return text


class Runner(object):
    """
    Renders, schedules and classifies the obligations of one property.
    """

    def __init__(self, report, harness_module, tier):
        self.report = report
        self.harness_module = harness_module  # e.g. "harness.c06"
        self.tier = tier
        self.build_dir = os.path.join(VERIF, "build", report.prop + (os.environ.get("VERIF_NO_EVIDENCE") or ""))
        os.makedirs(self.build_dir, exist_ok=True)
        self.module_path = os.path.join(self.build_dir, "obligations_{0}.py".format(tier))
        self._extra_src = []
        self._id = 0
        self._lock = threading.Lock()
        self.timings = []  # (cpu_s, wall_s, budget_s, function, state) per CrossHair query
        self.budget_retries = []  # functions re-run once with RETRY_FACTOR x the budget

    # -- rendering ------------------------------------------------------------
    CHUNK = 1500

    def _write_module(self, obs):
        """
        Renders the obligations into modules of at most CHUNK obligations each (a
        worker imports only the modules it is asked about; one 60 MB module made
        a re-spawned worker miss its first deadline and the time-outs cascaded).
        """
        self.module_of = {}
        for start in range(0, len(obs), self.CHUNK):
            path = self.module_path[:-3] + "_{0:03d}.py".format(start // self.CHUNK)
            chunk = obs[start:start + self.CHUNK]
            self._write_one(path, chunk)
            for ob in chunk:
                self.module_of[ob.name] = path

    def _write_one(self, module_path, obs):
        parts = [
            "# generated by engine/ch.py from {0} -- do not edit\n".format(self.harness_module),
            "import sys\nsys.path.insert(0, '/verif')\n",
            "from typing import *\n",
            "from {0} import *\n".format(self.harness_module),
            "import {0} as H\n\n".format(self.harness_module),
        ]
        for ob in obs:
            parts.append(ob.render(ob.name, ob.post))
            parts.append("\n")
            if ob.kind == "main":
                for code in ob.twin_codes:
                    parts.append(ob.render("{0}__tw{1}".format(ob.name, code), "_ != {0}".format(code)))
                    parts.append("\n")
        with open(module_path, "w") as fp:
            fp.write("".join(parts))

    def _retry_module(self, ob, fn_name, post, extra_pre):
        """
        Writes a one-function module for a re-run with added preconditions.
        """
        with self._lock:
            self._id += 1
            n = self._id
        path = os.path.join(self.build_dir, "retry_{0}_{1}.py".format(self.tier, n))
        with open(path, "w") as fp:
            fp.write(
                "import sys\nsys.path.insert(0, '/verif')\nfrom typing import *\n"
                "from {0} import *\nimport {0} as H\n\n".format(self.harness_module)
            )
            fp.write(ob.render(fn_name, post, extra_pre))
        return path

    # -- one obligation ---------------------------------------------------------
    def _next_id(self):
        with self._lock:
            self._id += 1
            return self._id

    def _analyze(self, worker, module, fn, timeout):
        req = {
            "id": self._next_id(),
            "mode": "analyze",
            "module": module,
            "fn": fn,
            "timeout": timeout,
        }
        t0 = time.time()
        res = worker.request(req, wall_limit=timeout * 4 + 60)
        with self._lock:
            self.report.solver_cpu_s += float(res.get("cpu_s") or 0.0)
            self.report.count_query("crosshair")
            self.timings.append((round(float(res.get("cpu_s") or 0.0), 1), round(time.time() - t0, 1), timeout, fn, res.get("state")))
        return res

    # A budget is a wall-clock limit, so how much of the path tree it covers depends
    # on the machine and its load (c17_0119 needs 77 s of a 90 s budget on an idle
    # 16-core sandbox and ran out on a slower restore).  An exhausted budget -- and
    # only that: "Not confirmed" is neither a verdict nor a counterexample -- is
    # followed by one re-run with RETRY_FACTOR times the budget.  More time can turn
    # "Not confirmed" into "Confirmed over all paths" or into a counterexample
    # (replayed as usual), never a counterexample into a pass.
    RETRY_FACTOR = 4

    def _analyze_budgeted(self, worker, module, fn, timeout):
        res = self._analyze(worker, module, fn, timeout)
        if res.get("state") in ("CANNOT_CONFIRM", "WALL_TIMEOUT"):
            with self._lock:
                self.budget_retries.append(fn)
            res = self._analyze(worker, module, fn, timeout * self.RETRY_FACTOR)
        return res

    def _native(self, worker, module, fn, call):
        req = {"id": self._next_id(), "mode": "native", "module": module, "fn": fn, "call": call}
        return worker.request(req, wall_limit=120)

    def _exclusion(self, worker, module, fn, call):
        """
        Turns a counterexample call text into `not (a == .. and b == ..)`.
        """
        try:
            captured = {}

            def collect(*a, **k):
                captured["a"], captured["k"] = a, k

            eval(call, {fn: collect, "nan": float("nan"), "inf": float("inf")})
            mod = {}
            with open(module) as fp:
                src = fp.read()
            m = re.search(r"def {0}\((.*?)\) -> ".format(re.escape(fn)), src, re.S)
            names = [p.split(":")[0].strip() for p in m.group(1).split(",") if p.strip()]
            bound = dict(zip(names, captured["a"]))
            bound.update(captured["k"])
            del mod
            return "not ({0})".format(
                " and ".join("{0} == {1!r}".format(k, v) for k, v in bound.items())
            )
        except Exception:  # noqa
            return None

    def _run_one(self, worker, ob):
        """
        Returns a list of events: (kind, text, payload)
        """
        events = []
        module = self.module_of[ob.name]
        home = module
        fn = ob.name
        extra_pre = []
        verdict = None
        for _attempt in range(4):
            res = self._analyze_budgeted(worker, module, fn, ob.timeout)
            state = res.get("state")
            if state == "CONFIRMED":
                verdict = ("confirmed", res)
                break
            if state in ("POST_FAIL", "EXEC_ERR", "POST_ERR"):
                call = parse_counterexample(res.get("message", ""))
                if call is None:
                    verdict = ("inconclusive", dict(res, why="unparsable counterexample"))
                    break
                nat = self._native(worker, module, fn, call)
                failing = nat.get("state") == "RAISED" or (
                    nat.get("state") == "RETURNED" and not self._post_holds(ob.post, nat)
                )
                if failing:
                    verdict = ("refuted", dict(res, call=call, native=nat))
                    break
                # does not reproduce: exclude this input and re-run
                excl = self._exclusion(worker, module, fn, call)
                if excl is None:
                    verdict = ("inconclusive", dict(res, why="non-reproducing counterexample", call=call))
                    break
                extra_pre.append(excl)
                fn = ob.name + "__r{0}".format(len(extra_pre))
                module = self._retry_module(ob, fn, ob.post, extra_pre)
                continue
            verdict = ("inconclusive", res)
            break
        else:
            verdict = ("inconclusive", {"state": "RETRIES", "message": "counterexamples did not reproduce"})
        events.append(("main", ob, verdict))

        if ob.kind == "main" and verdict[0] == "confirmed":
            for code in ob.twin_codes:
                tfn = "{0}__tw{1}".format(ob.name, code)
                res = self._analyze_budgeted(worker, home, tfn, ob.timeout)
                ok = False
                detail = res
                if res.get("state") == "POST_FAIL":
                    call = parse_counterexample(res.get("message", ""))
                    if call is not None:
                        nat = self._native(worker, home, tfn, call)
                        ok = nat.get("state") == "RETURNED" and nat.get("code") == code
                        detail = dict(res, call=call, native=nat)
                events.append(("twin", ob, (ok, code, detail)))
        return events

    @staticmethod
    def _post_holds(post, nat):
        try:
            return bool(eval(post, {"_": nat.get("code")}))
        except Exception:  # noqa
            return False

    # -- all obligations --------------------------------------------------------
    def run(self, obs):
        report = self.report
        names = set()
        for ob in obs:
            if ob.name in names:
                raise ValueError("duplicate obligation name " + ob.name)
            names.add(ob.name)
        self._write_module(obs)
        order = list(obs)
        random.Random(report.seed).shuffle(order)
        # longest budgets first
        order.sort(key=lambda o: -o.timeout)
        todo = queue.Queue()
        for ob in order:
            todo.put(ob)
        results = []

        # circuit breakers: a broken tree can turn hundreds of sub-second
        # obligations into full-budget ones; once the verdict of the run is
        # settled (violations replayed / too many inconclusive) stop scheduling
        max_viol = int(os.environ.get("VERIF_MAX_VIOLATIONS", "8"))
        max_inc = int(os.environ.get("VERIF_MAX_INCONCLUSIVE", "24"))
        counters = {"viol": 0, "inc": 0, "skipped": 0}

        def loop():
            worker = _Worker()
            try:
                while True:
                    try:
                        ob = todo.get_nowait()
                    except queue.Empty:
                        return
                    if counters["viol"] >= max_viol or counters["inc"] >= max_inc:
                        with self._lock:
                            counters["skipped"] += 1
                        continue
                    events = self._run_one(worker, ob)
                    with self._lock:
                        results.extend(events)
                        for kind, _ob, verdict in events:
                            if kind == "main" and _ob.kind == "main":
                                if verdict[0] == "refuted":
                                    counters["viol"] += 1
                                elif verdict[0] == "inconclusive":
                                    counters["inc"] += 1
            finally:
                worker.kill()

        threads = [threading.Thread(target=loop, daemon=True) for _ in range(min(NWORKERS, len(order)))]
        for t in threads:
            t.start()
        for t in threads:
            t.join()

        report.extra["slowest_queries"] = [
            {"cpu_s": c, "wall_s": w, "budget_s": b, "function": f, "state": st}
            for c, w, b, f, st in sorted(self.timings, reverse=True)[:10]
        ]
        report.extra["budget_retries"] = {"factor": self.RETRY_FACTOR, "functions": sorted(self.budget_retries)[:50]}
        if counters["skipped"]:
            report.extra["obligations_not_run_after_circuit_breaker"] = counters["skipped"]
            if counters["viol"] < max_viol:
                report.inconclusive.append(
                    "reason=aborted: {0} obligations not run after {1} inconclusive ones".format(
                        counters["skipped"], counters["inc"]
                    )
                )
        for kind, ob, verdict in results:
            if kind == "twin":
                ok, code, detail = verdict
                report.twins += 1
                if ok:
                    report.twins_refuted += 1
                    report.add_sample(
                        {"obligation": ob.name, "shape": ob.shape, "reachability_witness": detail.get("call"), "code": code}
                    )
                else:
                    report.inconclusive.append(
                        "obligation={0} reason=vacuous: twin for code {1} not refuted ({2}: {3})".format(
                            ob.name, code, detail.get("state"), str(detail.get("message"))[:200]
                        )
                    )
                continue
            status, detail = verdict
            if ob.kind == "finding":
                self._classify_finding(ob, status, detail)
                continue
            report.obligations += 1
            if status == "confirmed":
                report.discharged += 1
                report.shapes.add(json.dumps(ob.shape, sort_keys=True, default=repr))
            elif status == "refuted":
                path = report.write_replay(
                    ob.name,
                    {
                        "property": report.prop,
                        "obligation": ob.name,
                        "shape": ob.shape,
                        "module": self.module_of.get(ob.name),
                        "harness": self.harness_module,
                        "call": detail.get("call"),
                        "crosshair": detail.get("message"),
                        "native": detail.get("native"),
                        "source": ob.render(ob.name, ob.post),
                    },
                )
                report.violation(
                    "obligation={0} counterexample={1} native={2}".format(
                        ob.name, detail.get("call"), (detail.get("native") or {}).get("value")
                    ),
                    path,
                )
            else:
                report.inconclusive.append(
                    "obligation={0} reason={1}: {2}".format(
                        ob.name, detail.get("state"), str(detail.get("message") or detail.get("why"))[:300]
                    )
                )

    def _classify_finding(self, ob, status, detail):
        report = self.report
        entry = report.known_entry(ob.finding)
        if status == "confirmed":
            # the defect is gone: nothing to report
            report.extra.setdefault("finding_obligations_now_holding", []).append(ob.finding)
            return
        if status == "refuted":
            text = "{0}: {1} [witness {2} -> {3}]".format(
                ob.finding,
                (entry or {}).get("text", ""),
                detail.get("call"),
                (detail.get("native") or {}).get("value"),
            )
            if entry is not None:
                # one line per listed finding (first witness)
                if not any(k.startswith(ob.finding + ":") for k in report.known):
                    report.known.append(text)
            else:
                path = report.write_replay(
                    ob.name,
                    {
                        "property": report.prop,
                        "obligation": ob.name,
                        "shape": ob.shape,
                        "module": self.module_of.get(ob.name),
                        "call": detail.get("call"),
                        "native": detail.get("native"),
                        "source": ob.render(ob.name, ob.post),
                    },
                )
                report.violation("unlisted finding obligation={0} {1}".format(ob.name, detail.get("call")), path)
            return
        report.inconclusive.append(
            "obligation={0} (finding {1}) reason={2}: {3}".format(
                ob.name, ob.finding, detail.get("state"), str(detail.get("message"))[:300]
            )
        )


def traced_functions(fn, *args, **kwargs):
    """
    Runs fn concretely and returns the set of /repo functions it executed.
    """
    seen = set()

    def tracer(frame, event, arg):
        if event == "call":
            code = frame.f_code
            if code.co_filename.startswith(REPO + "/"):
                seen.add("{0}:{1}".format(os.path.relpath(code.co_filename, REPO), code.co_qualname))
        return None

    old = sys.gettrace()
    sys.settrace(tracer)
    try:
        try:
            fn(*args, **kwargs)
        except Exception:  # noqa
            pass
    finally:
        sys.settrace(old)
    return seen
