"""
./check <ID> --replay <file>: re-runs a stored counterexample against the current
/repo (CrossHair obligations: the obligation function is rebuilt from the source
text stored in the replay file and called natively with the counterexample's
arguments) or prints the stored schedule of a transition-system counterexample
together with what the real code did under it.
"""
import json
import sys


def replay(path):
    with open(path) as fp:
        data = json.load(fp)
    prop = data.get("property")
    if "source" in data and data.get("call"):
        harness = data.get("harness") or "harness." + prop.lower()
        ns = {}
        exec("import sys\nsys.path.insert(0, '/verif')\nfrom typing import *\nfrom {0} import *\nimport {0} as H\n".format(harness), ns)
        exec(data["source"], ns)
        name = data["obligation"]
        captured = {}

        def collect(*a, **k):
            captured["a"], captured["k"] = a, k

        env = dict(ns)
        env[name] = collect
        env["nan"], env["inf"] = float("nan"), float("inf")
        eval(data["call"], env)
        try:
            value = ns[name](*captured["a"], **captured["k"])
            print("replay {0}: {1} -> {2}".format(prop, data["call"], value))
            failing = not (isinstance(value, int) and value >= 100)
        except Exception as ex:  # noqa
            print("replay {0}: {1} raised {2}: {3}".format(prop, data["call"], type(ex).__name__, ex))
            failing = True
        print("shape:", json.dumps(data.get("shape"))[:600])
        print("VIOLATION reproduced" if failing else "no violation on the current tree")
        return 1 if failing else 0
    if "schedule_trace" in data:
        print("replay {0}: window {1}, clause: {2}".format(prop, (data.get("window") or {}).get("name"), data.get("violated")))
        for tid, steps in data.get("schedule_trace") or []:
            print("  thread {0}: {1}".format(tid, " ; ".join("{0} [{1}]".format(label, line) for line, label in steps)))
        print("real code under this schedule:", json.dumps(data.get("real_observations"), default=str)[:1500])
        print("model observations:", json.dumps(data.get("model_observations"), default=str)[:800])
        return 1
    if "class_name" in data:
        print("replay {0}: class name {1!r} {2}".format(prop, data["class_name"], data.get("observed")))
        return 1
    print("unknown replay format", file=sys.stderr)
    return 3
