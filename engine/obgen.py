"""
Helpers to render obligations: typed leaf lists -> parameter text, leaf dict text,
standard preconditions (string length bound, finite floats).
"""


def params_of(leaves):
    return ", ".join("{0}: {1}".format(n, t) for n, t in leaves)


def ldict(leaves):
    return "{" + ", ".join("'{0}': {0}".format(n) for n, _ in leaves) + "}"


def pres_of(leaves, strlen, nonneg=()):
    pre = []
    for n, t in leaves:
        if t == "str":
            pre.append("len({0}) <= {1}".format(n, strlen))
        elif t == "float":
            pre.append("{0} == {0} and {0} - {0} == 0".format(n))
        elif t.startswith("Union") or t.startswith("Optional"):
            if "str" in t:
                pre.append("not isinstance({0}, str) or len({0}) <= {1}".format(n, strlen))
            if "float" in t:
                pre.append("not isinstance({0}, float) or ({0} == {0} and {0} - {0} == 0)".format(n))
    return pre


def dedup(seq):
    out = []
    for item in seq:
        if item not in out:
            out.append(item)
    return out
