"""
Driver: python -m engine.main <PROP> [--tier quick|thorough] [--replay file]
"""
import argparse
import importlib
import os
import sys

sys.path.insert(0, "/verif")

from engine.common import Report, EXIT_INCONCLUSIVE  # noqa: E402

LEVELS = {
    "C09": "model_checking",
    "C10": "model_checking",
    "C11": "model_checking",
    "C16": "model_checking",
}


def main():
    parser = argparse.ArgumentParser()
    parser.add_argument("prop")
    parser.add_argument("--tier", default=os.environ.get("VERIF_TIER") or "quick")
    parser.add_argument("--replay", default=None)
    args = parser.parse_args()
    prop = args.prop.upper()
    tier = args.tier if args.tier in ("quick", "thorough") else "quick"
    try:
        seed = int(os.environ.get("VERIF_SEED", "0"))
    except ValueError:
        seed = 0
    if args.replay:
        from engine.replay import replay

        return replay(args.replay)
    mod = importlib.import_module("props." + prop.lower())
    report = Report(prop, tier, seed, level=getattr(mod, "LEVEL", LEVELS.get(prop, "other")))
    try:
        mod.run(report, tier)
    except Exception as ex:  # noqa
        import traceback

        traceback.print_exc()
        report.inconclusive.append("harness-error {0}: {1}".format(type(ex).__name__, ex))
    return report.finish()


if __name__ == "__main__":
    sys.exit(main())
